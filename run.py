#!/venv/bin/python
"""Entry point:  run.py <PROPERTY> [--tier quick|thorough] [--replay FILE] [--workers N] [--limit N]

exit 0  property held on everything explored (KNOWN-FINDING lines may be printed)
exit 1  at least one `VIOLATION property=<id> replay=<path>` line was printed
"""
import argparse
import os
import sys

ROOT = os.path.dirname(os.path.abspath(__file__))


def main():
    ap = argparse.ArgumentParser()
    ap.add_argument("prop")
    ap.add_argument("--tier", default=os.environ.get("VERIF_TIER", "quick"), choices=["quick", "thorough"])
    ap.add_argument("--replay")
    ap.add_argument("--workers", type=int)
    ap.add_argument("--limit", type=int)
    args = ap.parse_args()
    if os.environ.get("PYTHONHASHSEED") != "0":
        os.environ["PYTHONHASHSEED"] = "0"
        os.execv(sys.executable, [sys.executable] + sys.argv)
    # testing aid (never used by the registered commands): VERIF_REPO=<worktree> makes every worker import pandera from that
    # tree instead of /repo, VERIF_OUT=<dir> redirects evidence/ and replays/ so /verif's committed evidence is untouched
    if os.environ.get("VERIF_REPO"):
        os.environ["PYTHONPATH"] = os.environ["VERIF_REPO"] + os.pathsep + os.environ.get("PYTHONPATH", "")
        sys.path.insert(0, os.environ["VERIF_REPO"])
    os.environ.setdefault("PANDERA_VERIF", "1")
    os.environ.setdefault("POLARS_MAX_THREADS", "1")
    os.environ.setdefault("OMP_NUM_THREADS", "1")
    os.environ.setdefault("OPENBLAS_NUM_THREADS", "1")
    # the env vars of C18 must not leak from the caller's shell into ordinary checks
    for k in list(os.environ):
        if k.startswith("PANDERA_") and k not in ("PANDERA_VERIF",):
            del os.environ[k]
    sys.path.insert(0, ROOT)
    os.chdir(ROOT)
    seed = int(os.environ.get("VERIF_SEED", "0"))
    from mc.core import driver

    sys.exit(driver.execute(args.prop.upper(), args.tier, seed, workers=args.workers, replay=args.replay,
                            limit=args.limit))


if __name__ == "__main__":
    main()
