"""Generic driver: shard cases over worker processes, aggregate, match known findings,
write replay files and evidence.

A property module (mc/props/cNN.py) exposes

    PROPERTY = "C01"
    LEVEL    = "model_checking"          # evidence level
    def plan(tier, seed) -> dict          # {"cases": [json...], "bounds": {...}, "rule": str, ...}
    def run_case(case) -> dict            # executed inside a worker process
        {"viol": [{"clause": str, "key": str, "detail": str}],
         "nontrivial": bool,               # by the module's stated rule
         "outcome": str,                   # short outcome-class label (vacuity guard)
         "states": int, "transitions": int, "execs": int}   # all optional, default 1

run_case must never let an exception raised by pandera escape unless that *is* the oracle's
business; anything that does escape is reported as a violation (clause harness_exception):
on the unchanged tree that never happens, on a changed tree it is almost always the change.
"""
from __future__ import annotations

import importlib
import json
import multiprocessing as mp
import os
import signal
import sys
import time
import traceback

ROOT = os.path.dirname(os.path.dirname(os.path.dirname(os.path.abspath(__file__))))
OUT = os.environ.get("VERIF_OUT") or ROOT
CASE_TIMEOUT_S = int(os.environ.get("VERIF_CASE_TIMEOUT", "900"))


class CaseTimeout(BaseException):
    pass


def _alarm(_sig, _frm):
    raise CaseTimeout()


_MOD = None


def _init_worker(modname):
    global _MOD
    sys.path.insert(0, ROOT)
    os.environ.setdefault("PANDERA_VERIF", "1")
    import warnings

    warnings.simplefilter("ignore")
    _MOD = importlib.import_module(modname)
    if hasattr(_MOD, "init_worker"):
        _MOD.init_worker()
    signal.signal(signal.SIGALRM, _alarm)


def _run_one(args):
    idx, case = args
    t0 = time.time()
    try:
        signal.alarm(CASE_TIMEOUT_S)
        res = _MOD.run_case(case)
        signal.alarm(0)
    except CaseTimeout:
        res = {"viol": [{"clause": "timeout", "key": "timeout",
                         "detail": f"case did not finish in {CASE_TIMEOUT_S}s"}]}
    except BaseException as exc:  # noqa
        signal.alarm(0)
        tb = traceback.extract_tb(exc.__traceback__)
        where = "?"
        for fr in reversed(tb):
            where = f"{os.path.basename(fr.filename)}:{fr.name}"
            break
        res = {"viol": [{"clause": "harness_exception",
                         "key": f"{type(exc).__name__}@{where}",
                         "detail": "".join(traceback.format_exception(exc))[-3000:]}]}
    res.setdefault("viol", [])
    res["idx"] = idx
    res["dt"] = time.time() - t0
    return res


def _chunks(n_cases, workers):
    # small chunks keep the tail short; imap_unordered + chunksize
    return max(1, min(64, n_cases // (workers * 8) or 1))


def load_known(prop):
    path = os.path.join(ROOT, "known_findings.json")
    if not os.path.exists(path):
        return []
    with open(path) as fh:
        data = json.load(fh)
    return [f for f in data.get("findings", []) if f.get("property") == prop]


def match_known(known, clause, key):
    import re

    for f in known:
        if f.get("status", "open") != "open":
            continue  # "fixed" entries suppress nothing
        if f.get("clause") != clause:
            continue
        if "key" in f and f["key"] == key:
            return f
        if "key_regex" in f and re.fullmatch(f["key_regex"], key):
            return f
    return None


def rerun_fresh(modname, case):
    """Re-run one case in a fresh interpreter; returns list of (clause,key)."""
    import subprocess

    code = (
        "import sys,json,os;sys.path.insert(0,%r);"
        "import warnings;warnings.simplefilter('ignore');"
        "from mc.core import driver;driver._init_worker(%r);"
        "r=driver._run_one((0,json.load(sys.stdin)));"
        "print('@@'+json.dumps(sorted({(v['clause'],v['key']) for v in r['viol']})))"
    ) % (ROOT, modname)
    env = dict(os.environ, PYTHONHASHSEED="0")
    p = subprocess.run([sys.executable, "-c", code], input=json.dumps(case), text=True,
                       capture_output=True, env=env, timeout=CASE_TIMEOUT_S * 2 + 60)
    for line in p.stdout.splitlines():
        if line.startswith("@@"):
            return [tuple(x) for x in json.loads(line[2:])]
    raise RuntimeError("fresh re-run produced no result:\n" + p.stdout[-2000:] + p.stderr[-2000:])


def execute(prop, tier, seed, workers=None, replay=None, limit=None):
    modname = f"mc.props.{prop.lower()}"
    sys.path.insert(0, ROOT)
    mod = importlib.import_module(modname)
    t0 = time.time()
    if replay:
        with open(replay) as fh:
            rp = json.load(fh)
        plan = {"cases": [rp["case"]], "bounds": {"replay": replay}, "rule": "replay of one recorded case"}
    else:
        plan = mod.plan(tier, seed)
    cases = plan["cases"]
    if limit:
        cases = cases[:limit]
    n = len(cases)
    workers = workers or int(os.environ.get("VERIF_WORKERS", "0")) or min(16, os.cpu_count() or 4)
    workers = max(1, min(workers, n))
    results = []
    ctx = mp.get_context("spawn")
    if n == 0:
        raise SystemExit("no cases planned")
    with ctx.Pool(workers, initializer=_init_worker, initargs=(modname,)) as pool:
        for res in pool.imap_unordered(_run_one, list(enumerate(cases)), chunksize=_chunks(n, workers)):
            results.append(res)
    results.sort(key=lambda r: r["idx"])

    known = [] if os.environ.get("VERIF_IGNORE_KNOWN") == "1" else load_known(prop)   # (maintenance aid: list every signature)
    by_sig = {}
    for res in results:
        for v in res["viol"]:
            by_sig.setdefault((v["clause"], v["key"]), []).append((res["idx"], v))
    new_sigs, known_hits = [], {}
    for sig, occ in sorted(by_sig.items()):
        f = match_known(known, *sig)
        if f is not None:
            known_hits.setdefault(f["id"], [f, 0])
            known_hits[f["id"]][1] += len(occ)
        else:
            new_sigs.append((sig, occ))

    viol_lines = []
    unreproduced = []
    os.makedirs(os.path.join(OUT, "replays", prop), exist_ok=True)
    confirmed = []
    for k, (sig, occ) in enumerate(new_sigs[:25]):
        idx, v = occ[0]
        case = v.get("case") or cases[idx]
        # determinism discipline: a violation is only reported when it reproduces twice from a fresh process;
        # anything else (e.g. a case that timed out on a loaded machine) is harness nondeterminism, not a verdict
        if not replay and os.environ.get("VERIF_NO_RERUN") != "1":
            try:
                r1 = rerun_fresh(modname, case)
                r2 = rerun_fresh(modname, case)
            except Exception as exc:  # noqa
                r1, r2 = [("rerun_failed", str(exc)[:200])], []
            repro = (sig in r1) and (sig in r2)
            if not repro and r1 and sorted(r1) == sorted(r2) and not any(c in ("timeout", "rerun_failed") for c, _ in r1):
                # the case fails deterministically in a fresh process, only under another signature (e.g. a key that
                # depends on the shard it was found in): that is a violation, not nondeterminism
                repro = True
        else:
            repro = True
        path = os.path.join(OUT, "replays", prop, f"{tier}_{k:02d}.json")
        with open(path, "w") as fh:
            json.dump({"property": prop, "clause": sig[0], "key": sig[1], "detail": v.get("detail", ""),
                       "occurrences": len(occ), "reproduced_twice_fresh": repro, "case": case}, fh, indent=1,
                      default=str)
        if repro:
            viol_lines.append((sig, path, repro, v.get("detail", "")))
            confirmed.append((sig, occ))
        else:
            unreproduced.append({"clause": sig[0], "key": sig[1], "replay": path})
    confirmed += new_sigs[25:]
    new_sigs = confirmed

    with open(os.path.join(OUT, "replays", prop, f"{tier}_signatures.json"), "w") as fh:
        json.dump([{"clause": sig[0], "key": sig[1], "n": len(occ), "detail": occ[0][1].get("detail", "")[:1500]}
                   for sig, occ in new_sigs], fh, indent=1, default=str)
    wall = time.time() - t0
    cov = aggregate(mod, plan, cases, results, seed)
    cov["known_findings_hit"] = {fid: cnt for fid, (f, cnt) in known_hits.items()}
    if unreproduced:
        cov["unreproduced_not_reported"] = unreproduced
    ev = {
        "property_id": prop, "tier": tier, "seed": seed, "level": getattr(mod, "LEVEL", "model_checking"),
        "coverage": cov,
        "assumptions": list(getattr(mod, "ASSUMPTIONS", [])) + [
            "values, lengths and option combinations outside the stated alphabets/bounds are not covered",
            "workers import pandera from /repo's working tree (editable install), PYTHONHASHSEED=0",
        ],
        "wall_s": round(wall, 2),
        "violations": len(new_sigs),
    }
    if not replay:
        write_evidence(prop, ev)
    for fid, (f, cnt) in sorted(known_hits.items()):
        print(f"KNOWN-FINDING: property={prop} {fid}: {f.get('what', '')} [{cnt} case(s)]")
    for u in unreproduced:
        print(f"NOTE: {prop} clause={u['clause']} key={u['key']} did not reproduce twice in a fresh process "
              f"(harness nondeterminism, e.g. a timeout under load); not reported as a violation; replay kept at {u['replay']}")
    for sig, path, repro, detail in viol_lines:
        print(f"VIOLATION property={prop} replay={path} clause={sig[0]} key={sig[1]}")
        if detail:
            print("   " + str(detail)[:600].replace("\n", "\n   "))
    print(f"[{prop}] tier={tier} seed={seed} cases={n} states={cov.get('states')} transitions={cov.get('transitions')} "
          f"nontrivial={cov.get('distinct_nontrivial')} outcomes={len(cov.get('outcome_classes', {}))} "
          f"violations={len(new_sigs)} known={len(known_hits)} wall={wall:.1f}s")
    return 1 if new_sigs else 0


def aggregate(mod, plan, cases, results, seed):
    import random

    states = sum(r.get("states", 1) for r in results)
    transitions = sum(r.get("transitions", 1) for r in results)
    execs = sum(r.get("execs", 1) for r in results)
    nontriv = sum(r["nontrivial_n"] if "nontrivial_n" in r else (1 if r.get("nontrivial") else 0) for r in results)
    outcomes = {}
    for r in results:
        o = r.get("outcome", "n/a")
        outcomes[o] = outcomes.get(o, 0) + 1
    rnd = random.Random(seed)
    samp_idx = sorted(rnd.sample(range(len(cases)), min(3, len(cases))))
    samples = [{"case": cases[i], "outcome": results[i].get("outcome")} for i in samp_idx]
    cov = {
        "states": states,
        "transitions": transitions,
        "traces_validated_against_impl": execs,
        "evaluations": execs,
        "distinct_nontrivial": nontriv,
        "rule": plan.get("rule", ""),
        "exhaustive": bool(plan.get("exhaustive", True)),
        "bounds": plan.get("bounds", {}),
        "cases": len(cases),
        "outcome_classes": dict(sorted(outcomes.items(), key=lambda kv: -kv[1])[:40]),
        "samples": samples,
        "slowest_case_s": round(max((r["dt"] for r in results), default=0), 2),
    }
    extra = {}
    for r in results:
        for k, v in (r.get("counters") or {}).items():
            extra[k] = extra.get(k, 0) + v
    if extra:
        cov["counters"] = extra
    if hasattr(mod, "explain"):
        cov["explanation"] = mod.explain()
    return cov


def write_evidence(prop, ev):
    path = os.path.join(OUT, "evidence", f"{prop}.json")
    os.makedirs(os.path.dirname(path), exist_ok=True)
    try:
        import jsonschema

        with open("/root/.vp/EVIDENCE.schema.json") as fh:
            schema = json.load(fh)
        jsonschema.validate(json.loads(json.dumps(ev, default=str)), schema)
    except FileNotFoundError:
        pass
    except ImportError:
        pass
    with open(path, "w") as fh:
        json.dump(ev, fh, indent=1, default=str)
