"""Cooperative deterministic thread scheduler + shared-state access instrumentation.

Real threading.Thread objects run the harness bodies, but exactly one holds the baton.  A
*scheduling point* is placed before every access to shared mutable state:
  (a) attribute reads/writes of instrumented objects (schemas, components, checks, config objects):
      the object's __class__ is swapped for a generated subclass whose __getattribute__ /
      __setattr__ / __delattr__ call Scheduler.point();
  (b) every *line* of the functions registered with trace_code() (functions that read or rebind
      module globals by name), via threading.settrace.
A point is *offered* to the explorer only when its location is in the written-set W (locations
written by any thread in any execution so far; line points are always offered).  Accesses to
never-written locations commute with everything, so skipping them loses no behaviour.
"""
from __future__ import annotations

import sys
import threading

_SCHED = None          # the active scheduler (module global, read by the hooks)
_CLS_CACHE = {}
_MISSING = object()
_SCALARS = (bool, int, str, float, type(None))


class Deadlock(Exception):
    pass


class ReplayDivergence(Exception):
    pass


def instrumented_class(cls):
    """Subclass of cls whose attribute accesses are scheduling points."""
    if getattr(cls, "__mc_original__", None) is not None:
        return cls
    if cls in _CLS_CACHE:
        return _CLS_CACHE[cls]
    base_get = cls.__getattribute__
    base_set = cls.__setattr__
    base_del = cls.__delattr__

    def __getattribute__(self, name):
        s = _SCHED
        if s is not None and not name.startswith("__"):
            s.access(self, name, "r")
        return base_get(self, name)

    def __setattr__(self, name, value):
        s = _SCHED
        if s is not None:
            # a write that leaves the value unchanged commutes with every read: treat it as a read
            try:
                old = object.__getattribute__(self, "__dict__").get(name, _MISSING)
            except AttributeError:
                old = _MISSING
            silent = old is value or (type(old) in _SCALARS and type(value) is type(old) and old == value)
            s.access(self, name, "r" if silent else "w")
        return base_set(self, name, value)

    def __delattr__(self, name):
        s = _SCHED
        if s is not None:
            s.access(self, name, "w")
        return base_del(self, name)

    ns = {"__getattribute__": __getattribute__, "__setattr__": __setattr__, "__delattr__": __delattr__,
          "__mc_original__": cls, "__module__": cls.__module__, "__qualname__": cls.__qualname__}
    if "__slots__" in cls.__dict__:
        ns["__slots__"] = ()
    # BACKEND_REGISTRY is keyed by the class object: resolve through the original class
    if hasattr(cls, "get_backend"):
        def get_backend(inner_cls, *a, **k):
            return cls.get_backend(*a, **k)
        ns["get_backend"] = classmethod(get_backend)
    if hasattr(cls, "register_backend"):
        def register_backend(inner_cls, *a, **k):
            return cls.register_backend(*a, **k)
        ns["register_backend"] = classmethod(register_backend)
    if hasattr(cls, "register_default_backends"):
        orig = cls.__dict__.get("register_default_backends")
        if isinstance(orig, staticmethod):
            ns["register_default_backends"] = orig
    sub = type(cls.__name__, (cls,), ns)
    _CLS_CACHE[cls] = sub
    return sub


def instrument(obj, label):
    """Swap obj's class in place and give it a location label."""
    object.__setattr__(obj, "__mc_label__", label) if not hasattr(type(obj), "__slots__") or hasattr(obj, "__dict__") else None
    try:
        obj.__class__ = instrumented_class(type(obj))
    except TypeError:
        return False
    return True


def label_of(obj):
    try:
        return object.__getattribute__(obj, "__dict__").get("__mc_label__") or type(obj).__name__
    except AttributeError:
        return type(obj).__name__


class TRec:
    def __init__(self, tid, body):
        self.tid = tid
        self.body = body
        self.sem = threading.Semaphore(0)
        self.done = False
        self.result = None
        self.thread = None


class Scheduler:
    """One execution under a choice script.

    script: list of thread ids chosen at successive *offered* points (prefix); afterwards the
    default choice is "keep running the current thread" (or the lowest enabled id).
    """

    def __init__(self, bodies, script=(), W=None, traced_codes=(), record_access=False, max_points=20000, RW=None, tids=None):
        self.recs = [TRec(i, b) for i, b in enumerate(bodies)]
        self.tids = list(tids) if tids is not None else list(range(len(bodies)))  # logical thread ids (solo runs)
        self.script = list(script)
        self.W = W if W is not None else set()
        # RW[logical tid] = {"r": set(locs), "w": set(locs)} accumulated over executions
        self.RW = RW if RW is not None else {}
        self.rw_grew = False
        # code object -> (pseudo location, kind): every line of such a function is an access to the
        # module global it reads ("r") or rebinds / check-then-acts on ("w")
        self.traced = dict(traced_codes) if isinstance(traced_codes, dict) else {c: (("global", "?"), "w") for c in traced_codes}
        self.label_fn = None
        self.points = []       # offered points: dict(running, enabled, loc, kind, chosen)
        self.writes = set()    # locations written in this execution
        self.access_log = [] if record_access else None
        self.cur = None
        self.by_ident = {}
        self.in_hook = threading.local()
        self.main_evt = threading.Event()
        self.error = None
        self.max_points = max_points
        self.new_W = set()
        self.sites = set()

    # ---- hooks -------------------------------------------------------------------------------
    def access(self, obj, name, kind):
        rec = self.by_ident.get(threading.get_ident())
        if rec is None or rec is not self.cur:
            return
        if getattr(self.in_hook, "v", False):
            return
        self.in_hook.v = True
        try:
            lab = self.label_fn(obj, rec.tid) if self.label_fn is not None else None
            loc = (lab if lab is not None else label_of(obj), name)
            ltid = self.tids[rec.tid]
            mine = self.RW.setdefault(ltid, {"r": set(), "w": set()})
            if loc not in mine[kind]:
                mine[kind].add(loc)
                self.rw_grew = True
            if kind == "w":
                self.writes.add(loc)
            if self.access_log is not None:
                fr = sys._getframe(2)
                self.access_log.append((rec.tid, loc, kind, f"{fr.f_code.co_filename.split('/pandera/')[-1]}:{fr.f_code.co_name}"))
            # offered only when the access conflicts with an access some *other* thread may make:
            # a read conflicts with their writes, a write with their reads and writes
            for u, sets in self.RW.items():
                if u == ltid:
                    continue
                if loc in sets["w"] or (kind == "w" and loc in sets["r"]):
                    self._point(rec, loc, kind)
                    break
        finally:
            self.in_hook.v = False

    def line(self, rec, code, lineno):
        if getattr(self.in_hook, "v", False):
            return
        self.in_hook.v = True
        try:
            loc, kind = self.traced[code]
            ltid = self.tids[rec.tid]
            mine = self.RW.setdefault(ltid, {"r": set(), "w": set()})
            if loc not in mine[kind]:
                mine[kind].add(loc)
                self.rw_grew = True
            if self.access_log is not None:
                self.access_log.append((rec.tid, loc, kind, f"{code.co_name}:{lineno}"))
            for u, sets in self.RW.items():
                if u == ltid:
                    continue
                if loc in sets["w"] or (kind == "w" and loc in sets["r"]):
                    self._point(rec, ("line", code.co_name, lineno) + tuple(loc), kind)
                    break
        finally:
            self.in_hook.v = False

    def _tracer(self, frame, event, arg):
        if frame.f_code in self.traced:
            rec = self.by_ident.get(threading.get_ident())
            if rec is None:
                return None

            def local(fr, ev, a):
                if ev == "line" and rec is self.cur:
                    self.line(rec, fr.f_code, fr.f_lineno)
                return local
            return local
        return None

    # ---- scheduling --------------------------------------------------------------------------
    def _enabled(self):
        return [r.tid for r in self.recs if not r.done]

    def _choose(self, running, enabled, loc, kind):
        i = len(self.points)
        if i >= self.max_points:
            raise Deadlock(f"more than {self.max_points} scheduling points")
        if i < len(self.script):
            ch = self.script[i]
            if ch not in enabled:
                raise ReplayDivergence(f"point {i}: scripted thread {ch} not enabled {enabled} at {loc}")
        else:
            ch = running if (running is not None and running in enabled) else enabled[0]
        self.points.append({"running": running, "enabled": list(enabled), "loc": loc, "kind": kind, "chosen": ch})
        return ch

    def _point(self, rec, loc, kind):
        enabled = self._enabled()
        if len(enabled) <= 1:
            return
        ch = self._choose(rec.tid, enabled, loc, kind)
        if ch != rec.tid:
            nxt = self.recs[ch]
            self.cur = nxt
            nxt.sem.release()
            rec.sem.acquire()

    def _finish(self, rec):
        rec.done = True
        enabled = self._enabled()
        if not enabled:
            self.cur = None
            self.main_evt.set()
            return
        try:
            ch = self._choose(None, enabled, ("finish", rec.tid), "f") if len(enabled) > 1 else enabled[0]
        except BaseException as e:  # noqa
            self.error = e
            self.main_evt.set()
            return
        nxt = self.recs[ch]
        self.cur = nxt
        nxt.sem.release()

    def _run_thread(self, rec):
        self.by_ident[threading.get_ident()] = rec
        rec.sem.acquire()
        if self.traced:
            sys.settrace(self._tracer)
        try:
            rec.result = ("ok", rec.body())
        except (Deadlock, ReplayDivergence) as e:
            self.error = e
            rec.result = ("sched_error", repr(e))
        except BaseException as e:  # noqa
            rec.result = ("exc", e)
        finally:
            sys.settrace(None)
            self.in_hook.v = True
            try:
                self._finish(rec)
            finally:
                self.in_hook.v = False

    def run(self, timeout=60):
        global _SCHED
        for rec in self.recs:
            rec.thread = threading.Thread(target=self._run_thread, args=(rec,), daemon=True)
            rec.thread.start()
        _SCHED = self
        try:
            enabled = self._enabled()
            first = self._choose(None, enabled, ("start",), "s") if len(enabled) > 1 else enabled[0]
            self.cur = self.recs[first]
            self.cur.sem.release()
            if not self.main_evt.wait(timeout):
                self.error = Deadlock(f"no progress within {timeout}s; running={self.cur.tid if self.cur else None} "
                                      f"points={len(self.points)}")
        finally:
            _SCHED = None
        for rec in self.recs:
            rec.thread.join(timeout=0.5)
        if self.error is not None:
            raise self.error
        return [r.result for r in self.recs]


def preemptions(points, upto=None):
    n = 0
    for p in points[:upto]:
        if p["running"] is not None and p["running"] in p["enabled"] and p["chosen"] != p["running"]:
            n += 1
    return n
