"""Run the real pandera on a (schema spec, table spec, options) case and normalise what is observed."""
from __future__ import annotations

import os
import traceback

from mc.spec import schema as S
from mc.spec import table as T

REPO = "/repo/pandera"


def pandera_frame_of(exc):
    """innermost traceback frame that lies inside pandera: 'file.py:function'."""
    where = None
    for fr in traceback.extract_tb(exc.__traceback__):
        if "/pandera/" in fr.filename and "/site-packages/" not in fr.filename:
            where = f"{fr.filename.split('/pandera/', 1)[1]}:{fr.name}"
    return where or "outside-pandera"


def raised_in_user_callback(exc):
    """True when the exception was raised at or below a harness frame (a user callback such as a
    Parser function) that pandera called: the exception is the user's own, not pandera's."""
    tb = traceback.extract_tb(exc.__traceback__)
    last_pandera = max((i for i, fr in enumerate(tb) if "/pandera/" in fr.filename and "/site-packages/" not in fr.filename), default=-1)
    last_user = max((i for i, fr in enumerate(tb) if fr.filename.startswith("/verif/mc/spec/")), default=-1)
    return last_user > last_pandera >= 0


CORE_IDS = [
    ("dtype(", "dtype"), ("not_nullable", "not_nullable"), ("field_uniqueness", "field_uniqueness"),
    ("field_name(", "field_name"), ("column_in_dataframe", "column_in_dataframe"),
    ("column_in_schema", "column_in_schema"), ("column_ordered", "column_ordered"),
    ("multiple_fields_uniqueness", "multiple_fields_uniqueness"), ("coerce_dtype(", "coerce_dtype"),
    ("dataframe_column_labels_unique", "dataframe_column_labels_unique"),
    ("no_regex_column_match", "no_regex_column_match"), ("add_missing_has_default", "add_missing_has_default"),
    ("schema_component_checks", "schema_component_checks"),
]


def check_id(check, check_index):
    """Stable identifier: core checks by name, user checks by their position."""
    if check is None:
        return None
    if check_index is not None and not isinstance(check, str):
        return f"check#{int(check_index)}"
    text = check if isinstance(check, str) else (getattr(check, "error", None) or getattr(check, "name", None) or str(check))
    for prefix, cid in CORE_IDS:
        if str(text).startswith(prefix):
            return cid
    if check_index is not None:
        return f"check#{int(check_index)}"
    return str(text)


def norm_schema_error(err):
    import pandas as pd

    fc = err.failure_cases
    d = {"reason": err.reason_code.name if err.reason_code is not None else None,
         "ctx": type(err.schema).__name__, "schema_name": T.norm(getattr(err.schema, "name", None)),
         "check": check_id(err.check, err.check_index), "column_name": T.norm(getattr(err, "column_name", None))}
    if isinstance(fc, pd.DataFrame):
        rows = []
        for _, r in fc.iterrows():
            rows.append((T.norm(r["column"]) if "column" in fc.columns else None, T.norm(r.get("index")), T.norm(r.get("failure_case"))))
        d["fc_rows"] = rows
        d["fc_kind"] = "table"
    elif isinstance(fc, pd.Index):
        d["fc_kind"] = "index"
        d["fc_scalar"] = [T.norm(v) for v in fc.tolist()]
    else:
        d["fc_kind"] = "scalar"
        d["fc_scalar"] = T.norm(fc) if not hasattr(fc, "collect") else "<lazyframe>"
    return d


def norm_report(exc):
    """SchemaErrors -> rows of the consolidated failure_cases + counts + message shape."""
    import pandas as pd

    fc = exc.failure_cases
    rows = []
    if isinstance(fc, pd.DataFrame):
        for _, r in fc.iterrows():
            chk = r["check"]
            cn = r["check_number"]
            cid = check_id(chk, None if pd.isna(cn) else cn)
            rows.append({"ctx": r["schema_context"], "column": T.norm(r["column"]), "check": cid,
                         "value": T.norm(r["failure_case"]), "index": T.norm(r["index"])})
    else:  # polars
        for r in fc.to_dicts():
            cn = r.get("check_number")
            rows.append({"ctx": r.get("schema_context"), "column": r.get("column"),
                         "check": check_id(r.get("check"), cn), "value": r.get("failure_case"), "index": r.get("index")})
    n_msg = 0
    for cat in (exc.message or {}).values():
        for lst in cat.values():
            n_msg += len(lst)
    return {"rows": rows, "error_counts": dict(exc.error_counts), "n_message_entries": n_msg,
            "errors": [norm_schema_error(e) for e in exc.schema_errors]}


def build_data(spec, table):
    kind = spec.get("kind", "frame")
    if kind == "series":
        return T.to_pandas_series(table, name=table.get("series_name", "__same__"))
    return T.to_pandas(table)


def validate_pandas(spec, table, lazy=False, schema=None, data=None, **opts):
    """-> dict(outcome=ok|SchemaError|SchemaErrors|<other exc>, ...)."""
    import pandera as pa

    schema = schema if schema is not None else S.build_pandas(spec)
    data = data if data is not None else build_data(spec, table)
    before = T.snap_pandas(data)
    out = {"backend": "pandas", "lazy": lazy}
    try:
        res = schema.validate(data, lazy=lazy, **opts)
        out["outcome"] = "ok"
        out["result"] = T.snap_pandas(res)
        out["result_type"] = type(res).__name__
        out["result_is_input"] = res is data
        out["_result_obj"] = res
    except pa.errors.SchemaErrors as exc:
        out["outcome"] = "SchemaErrors"
        try:
            out["report"] = norm_report(exc)
        except Exception as e2:  # noqa
            out["outcome"] = "leak"
            out["exc"] = f"report:{type(e2).__name__}"
            out["where"] = pandera_frame_of(e2)
    except pa.errors.SchemaError as exc:
        out["outcome"] = "SchemaError"
        out["error"] = norm_schema_error(exc)
    except (pa.errors.SchemaDefinitionError, pa.errors.SchemaInitError) as exc:
        out["outcome"] = type(exc).__name__
    except Exception as exc:  # noqa
        out["outcome"] = "user_callback_exception" if raised_in_user_callback(exc) else "leak"
        out["exc"] = type(exc).__name__
        out["where"] = pandera_frame_of(exc)
        out["msg"] = str(exc)[:300]
    out["input_before"] = before
    out["input_after"] = T.snap_pandas(data)
    out["_schema"] = schema
    out["_data"] = data
    return out


def validate_polars(spec, table, lazy=False, as_lazyframe=False, schema=None, **opts):
    import pandera as pa

    schema = schema if schema is not None else S.build_polars(spec)
    data = T.to_polars(table, lazy=as_lazyframe)
    before = T.snap_polars(data)
    out = {"backend": "polars", "lazy": lazy}
    try:
        res = schema.validate(data, lazy=lazy, **opts)
        out["result_type"] = type(res).__name__
        out["result"] = T.snap_polars(res)
        out["outcome"] = "ok"
        out["_result_obj"] = res
    except pa.errors.SchemaErrors as exc:
        out["outcome"] = "SchemaErrors"
        try:
            out["report"] = norm_report(exc)
        except Exception as e2:  # noqa
            out["outcome"] = "leak"
            out["exc"] = f"report:{type(e2).__name__}"
            out["where"] = pandera_frame_of(e2)
    except pa.errors.SchemaError as exc:
        out["outcome"] = "SchemaError"
        out["error"] = {"reason": exc.reason_code.name if exc.reason_code is not None else None,
                        "check": check_id(exc.check, exc.check_index), "ctx": type(exc.schema).__name__,
                        "schema_name": getattr(exc.schema, "name", None)}
    except (pa.errors.SchemaDefinitionError, pa.errors.SchemaInitError) as exc:
        out["outcome"] = type(exc).__name__
    except Exception as exc:  # noqa
        out["outcome"] = "leak"
        out["exc"] = type(exc).__name__
        out["where"] = pandera_frame_of(exc)
        out["msg"] = str(exc)[:300]
        if out["where"] == "outside-pandera" and "result_type" in out:
            # validate() returned a LazyFrame; the failure surfaced when the harness collected it,
            # i.e. outside validate: not an escape from validate
            out["outcome"] = "lazy_result_failed_on_collect"
    out["input_before"] = before
    out["input_after"] = T.snap_polars(data)
    out["input_type"] = type(data).__name__
    out["_schema"] = schema
    return out


def accepted(obs):
    return obs["outcome"] == "ok"


def rejected(obs):
    return obs["outcome"] in ("SchemaError", "SchemaErrors")
