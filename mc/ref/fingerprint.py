"""Deep structural fingerprint of pandera schema object graphs (and config / registries).

fingerprint(obj) -> JSON-able nested structure that depends only on observable structure:
attribute names and values, check statistics / kwargs / function code, dtype dataclass fields and
their str/repr/hash-stability, parsers, index.  Object identities never enter the result (cycles are
rendered by the path of first visit), so two independently built equal schemas fingerprint equally
and any in-place edit of a reachable attribute changes the fingerprint.
"""
from __future__ import annotations

import dataclasses
import enum
import functools
import hashlib
import json
import re
import types


def _code_fp(code):
    consts = []
    for c in code.co_consts:
        consts.append(_code_fp(c) if isinstance(c, types.CodeType) else repr(c))
    return hashlib.sha1((code.co_code.hex() + "|" + "|".join(consts) + "|" + ",".join(code.co_names)).encode()).hexdigest()[:12]


def _fp(o, seen, path, depth):
    if depth > 40:
        return "<depth>"
    if o is None or isinstance(o, (bool, int, str)):
        return o
    if isinstance(o, float):
        return "nan" if o != o else o
    if isinstance(o, (bytes, complex)):
        return repr(o)
    if isinstance(o, enum.Enum):
        return f"enum:{type(o).__name__}.{o.name}"
    if isinstance(o, type):
        return f"type:{o.__module__}.{o.__qualname__}"
    if isinstance(o, types.ModuleType):
        return f"module:{o.__name__}"
    oid = id(o)
    if oid in seen:
        return f"<ref:{seen[oid]}>"
    if isinstance(o, (list, tuple)):
        seen[oid] = path
        r = [_fp(x, seen, f"{path}[{i}]", depth + 1) for i, x in enumerate(o)]
        del seen[oid]
        return {"__seq__": type(o).__name__, "v": r}
    if isinstance(o, (set, frozenset)):
        items = sorted((json.dumps(_fp(x, seen, path + "{}", depth + 1), sort_keys=True, default=str) for x in o))
        return {"__set__": items}
    if isinstance(o, dict):
        seen[oid] = path
        out = {}
        for k, v in o.items():
            kk = k if isinstance(k, str) else "k:" + json.dumps(_fp(k, seen, path, depth + 1), sort_keys=True, default=str)
            out[kk] = _fp(v, seen, f"{path}.{kk}", depth + 1)
        del seen[oid]
        return {"__dict__": out, "__order__": [k if isinstance(k, str) else repr(k) for k in o.keys()]}
    if isinstance(o, functools.partial):
        return {"__partial__": _fp(o.func, seen, path + ".func", depth + 1), "args": _fp(list(o.args), seen, path, depth + 1),
                "kw": _fp(dict(o.keywords), seen, path, depth + 1)}
    if isinstance(o, (types.FunctionType, types.LambdaType)):
        seen[oid] = path
        cells = []
        if o.__closure__:
            for c in o.__closure__:
                try:
                    cells.append(_fp(c.cell_contents, seen, path + ".cell", depth + 1))
                except ValueError:
                    cells.append("<empty cell>")
        r = {"__fn__": f"{o.__module__}.{o.__qualname__}", "code": _code_fp(o.__code__),
             "defaults": _fp(list(o.__defaults__ or ()), seen, path, depth + 1), "cells": cells}
        del seen[oid]
        return r
    if isinstance(o, types.MethodType):
        return {"__method__": o.__func__.__qualname__, "self": type(o.__self__).__name__}
    if isinstance(o, (types.BuiltinFunctionType, types.MethodWrapperType, staticmethod, classmethod)):
        return f"builtin:{getattr(o, '__qualname__', repr(type(o)))}"
    if isinstance(o, re.Pattern):
        return f"re:{o.pattern!r}:{o.flags}"
    mod = type(o).__module__ or ""
    if mod.startswith(("numpy", "pandas", "polars", "pyarrow", "datetime", "decimal", "pyspark")):
        # foreign value objects (dtypes, timestamps, arrays): by type and printed form
        try:
            return f"{mod}.{type(o).__name__}:{o!r}"[:300]
        except Exception:  # noqa
            return f"{mod}.{type(o).__name__}"
    if type(o).__name__ == "Dispatcher" and "function_dispatch" in mod:
        # process-global type-dispatch registry of a built-in check: identified by name, its table of
        # registered implementations grows lazily with backend registration and is not schema state
        return f"dispatcher:{getattr(o, '_name', None) or getattr(o, '__name__', '?')}"
    seen[oid] = path
    try:
        out = {"__class__": f"{type(o).__module__}.{type(o).__qualname__}".replace("mc.core.sched.", "")}
        cls_name = out["__class__"]
        # instrumented subclasses (thread explorer) carry a marker with the original class name
        orig = getattr(type(o), "__mc_original__", None)
        if orig is not None:
            out["__class__"] = f"{orig.__module__}.{orig.__qualname__}"
        if dataclasses.is_dataclass(o) and not isinstance(o, type):
            flds = {}
            for f in dataclasses.fields(o):
                try:
                    flds[f.name] = _fp(getattr(o, f.name), seen, f"{path}.{f.name}", depth + 1)
                except Exception as e:  # noqa
                    flds[f.name] = f"<err {type(e).__name__}>"
            out["fields"] = flds
        d = getattr(o, "__dict__", None)
        if d is not None:
            out["attrs"] = {k: _fp(v, seen, f"{path}.{k}", depth + 1) for k, v in sorted(d.items())
                            if not k.startswith("__mc_")}
        slots = []
        for klass in type(o).__mro__:
            slots += list(getattr(klass, "__slots__", ()) or ())
        for s_ in slots:
            if s_ in ("__dict__", "__weakref__"):
                continue
            try:
                out.setdefault("slots", {})[s_] = _fp(getattr(o, s_), seen, f"{path}.{s_}", depth + 1)
            except AttributeError:
                pass
        if "pandera" in cls_name and ("dtypes" in cls_name or "engine" in cls_name):
            try:
                out["str"] = str(o)
                out["repr"] = repr(o)
            except Exception as e:  # noqa
                out["str"] = f"<err {type(e).__name__}>"
        if d is None and not slots and "fields" not in out:
            out["repr"] = repr(o)[:200]
        return out
    finally:
        del seen[oid]


def fingerprint(obj):
    return _fp(obj, {}, "$", 0)


def digest(obj):
    return hashlib.sha1(json.dumps(fingerprint(obj), sort_keys=True, default=str).encode()).hexdigest()


def diff(a, b, path="$", out=None, limit=8):
    """paths at which two fingerprints differ (for readable reports)"""
    if out is None:
        out = []
    if len(out) >= limit:
        return out
    if type(a) != type(b):
        out.append(f"{path}: {str(a)[:80]} -> {str(b)[:80]}")
    elif isinstance(a, dict):
        for k in sorted(set(a) | set(b)):
            if k not in a:
                out.append(f"{path}.{k}: <absent> -> {str(b[k])[:80]}")
            elif k not in b:
                out.append(f"{path}.{k}: {str(a[k])[:80]} -> <absent>")
            else:
                diff(a[k], b[k], f"{path}.{k}", out, limit)
            if len(out) >= limit:
                break
    elif isinstance(a, list):
        if len(a) != len(b):
            out.append(f"{path}: len {len(a)} -> {len(b)}")
        for i, (x, y) in enumerate(zip(a, b)):
            diff(x, y, f"{path}[{i}]", out, limit)
    elif a != b:
        out.append(f"{path}: {str(a)[:80]} -> {str(b)[:80]}")
    return out


def config_state():
    from pandera import config as cfg

    def t(c):
        d = c.validation_depth
        return [c.validation_enabled, None if d is None else d.value, c.cache_dataframe, c.keep_cached_dataframe]

    return {"context": t(cfg.get_config_context(validation_depth_default=None)), "global": t(cfg.get_config_global())}
