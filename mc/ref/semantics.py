"""Three-valued reference model of the declarative schema vocabulary, in plain Python.

evaluate(schema_spec, table_spec) -> Ref
    .frame   list of (check_id, level)                      frame-level (scalar) violations
    .cells   list of (ctx, column, check_id, rowkey, value, level)   row-level violations
    .unspec  list of reasons why (part of) the answer is not settled by the documentation
    .verdict "ACCEPT" | "REJECT" | "UNSPEC"
    .report_defined   True when the *set* of violations (not just the verdict) is specified

level in {"schema", "data", "nullable"} follows docs/source/configuration.md: schema-level =
names/presence/order/dtype, data-level = checks on values and uniqueness; nullability is tagged
separately because docs and code disagree about its level.

Row keys: index *label* for column- and frame-level constraints, *position* for constraints
on the index itself (pandera validates index.to_series().reset_index(drop=True)).
"""
from __future__ import annotations

import re

from mc.spec import schema as S

NUM = (int, float)


def is_null(v):
    return v is None or (isinstance(v, float) and v != v)


def _num(v):
    return isinstance(v, NUM) and not isinstance(v, bool)


def _cmp_ok(v, a):
    if _num(v) and _num(a):
        return True
    if isinstance(v, str) and isinstance(a, str):
        return True
    return False


def predicate(check, v):
    """True / False / None (unspecified) for one non-null value."""
    k, a = check["k"], list(check.get("a") or [])
    try:
        if k in ("eq", "equal_to"):
            return (v == a[0]) if _cmp_ok(v, a[0]) else None
        if k in ("ne", "not_equal_to"):
            return (v != a[0]) if _cmp_ok(v, a[0]) else None
        if k in ("gt", "greater_than"):
            return (v > a[0]) if _cmp_ok(v, a[0]) else None
        if k in ("ge", "greater_than_or_equal_to"):
            return (v >= a[0]) if _cmp_ok(v, a[0]) else None
        if k in ("lt", "less_than"):
            return (v < a[0]) if _cmp_ok(v, a[0]) else None
        if k in ("le", "less_than_or_equal_to"):
            return (v <= a[0]) if _cmp_ok(v, a[0]) else None
        if k in ("in_range", "between"):
            lo, hi = a[0], a[1]
            inc_lo = a[2] if len(a) > 2 else True
            inc_hi = a[3] if len(a) > 3 else True
            if not (_cmp_ok(v, lo) and _cmp_ok(v, hi)):
                return None
            left = (lo <= v) if inc_lo else (lo < v)
            right = (v <= hi) if inc_hi else (v < hi)
            return left and right
        if k in ("isin", "notin"):
            vals = a[0]
            if isinstance(vals, str):
                return None
            if isinstance(v, bool) or any(isinstance(x, bool) for x in vals):
                return None
            if not all(_cmp_ok(v, x) for x in vals):
                # membership across kinds (1 in ["1"]) is plainly False in every reading
                hit = any((type(x) is type(v) or (_num(x) and _num(v))) and x == v for x in vals)
            else:
                hit = any(x == v for x in vals)
            return hit if k == "isin" else (not hit)
        if k == "str_matches":
            return (re.match(a[0], v) is not None) if isinstance(v, str) else None
        if k == "str_contains":
            return (re.search(a[0], v) is not None) if isinstance(v, str) else None
        if k == "str_startswith":
            return v.startswith(a[0]) if isinstance(v, str) else None
        if k == "str_endswith":
            return v.endswith(a[0]) if isinstance(v, str) else None
        if k == "str_length":
            if not isinstance(v, str):
                return None
            lo = a[0] if len(a) > 0 else None
            hi = a[1] if len(a) > 1 else None
            if lo is None and hi is None:
                return None
            n = len(v)
            return (lo is None or n >= lo) and (hi is None or n <= hi)
        if k in ("custom_gt0", "custom_gt0_elem"):
            return (v > 0) if _num(v) else None
    except TypeError:
        return None
    return None


def dtype_match(schema_dt, phys_dt, values):
    """'ok' | 'bad' | 'unspec' | ('cells', [positions of offending elements])."""
    if schema_dt is None:
        return "ok"
    sc, pc = str(schema_dt).startswith("cat:"), str(phys_dt).startswith("cat:")
    if sc or pc:
        # a parametrised categorical type is matched by exactly that categorical type (same categories, same orderedness)
        if sc and pc:
            return "ok" if schema_dt == phys_dt else "bad"
        if sc:
            return "bad"
        return "unspec" if schema_dt in ("str", "object", "category") else "bad"
    if schema_dt == "str":
        if phys_dt == "object":
            bad = [i for i, v in enumerate(values) if not is_null(v) and not isinstance(v, str)]
            return ("cells", bad) if bad else "ok"
        if phys_dt in ("string", "category"):
            return "unspec"
        # `str` is checked element by element ("object column holding strings"): every non-null
        # element of another physical type is an offending cell; an empty container of another
        # physical type has no element to object to -> not settled by the docs
        bad = [i for i, v in enumerate(values) if not is_null(v)]
        if bad:
            return ("cells", bad)
        return "unspec"
    if schema_dt == "object":
        if phys_dt == "object":
            return "ok"
        if phys_dt in ("string", "category"):
            return "unspec"
        return "bad"
    if schema_dt == phys_dt:
        return "ok"
    pair = {schema_dt, phys_dt}
    if pair in ({"int64", "Int64"}, {"string", "object"}, {"float64", "Float64"}, {"bool", "boolean"}):
        # numpy type vs its nullable-extension twin: the docs do not settle whether they match
        return "unspec"
    return "bad"


class Ref:
    def __init__(self):
        self.frame = []
        self.cells = []
        self.unspec = []
        self.report_unspec = []
        # (ctx, column, check id) whose own report rows are not settled (a raising check, a check evaluated on
        # wrongly typed data); every other row of the report is still compared
        self.unspec_checks = set()

    def add_frame(self, check_id, level, ctx="DataFrameSchema", column=None, value=None):
        self.frame.append((ctx, column, check_id, value, level))

    def add_cell(self, ctx, column, check_id, rowkey, value, level, pos):
        self.cells.append((ctx, column, check_id, rowkey, value, level, pos))

    @property
    def verdict(self):
        if self.frame or self.cells:
            return "REJECT"
        if self.unspec:
            return "UNSPEC"
        return "ACCEPT"

    @property
    def report_defined(self):
        return not self.unspec and not self.report_unspec

    def levels(self):
        return {x[4] for x in self.frame} | {x[5] for x in self.cells}

    def bad_positions(self):
        return sorted({c[6] for c in self.cells})

    def summary(self):
        return {"verdict": self.verdict, "frame": [list(map(str, f)) for f in self.frame],
                "cells": [list(map(str, c)) for c in self.cells], "unspec": self.unspec + self.report_unspec}


def _labels(table):
    """Row labels (index values) as python scalars / tuples."""
    from mc.spec.table import nrows

    n = nrows(table)
    ix = table.get("index")
    if ix is None:
        return list(range(n))
    if ix["kind"] == "single":
        return list(ix["values"])
    return [tuple(l["values"][i] for l in ix["levels"]) for i in range(n)]


def _eval_component(ref, comp, values, phys_dt, ctx, column, rowkeys, where="column"):
    """dtype / nullable / unique / checks of one component against one value vector."""
    comp = S.full(comp)
    n = len(values)
    dm = dtype_match(comp["dtype"], phys_dt, values)
    if dm == "bad" and comp.get("default") is not None and phys_dt == "object":
        # filling the default into an object column (Series.fillna) lets pandas downcast the object array -- e.g. to int64 when it
        # holds python ints --, so which physical type the type check sees afterwards is pandas' doing, not settled by pandera's docs
        dm = "unspec"
    dtype_bad = False
    if dm == "bad":
        ref.add_frame("dtype", "schema", ctx, column, phys_dt)
        dtype_bad = True
    elif dm == "unspec":
        ref.unspec.append(f"dtype {comp['dtype']} vs physical {phys_dt}")
    elif isinstance(dm, tuple):
        for i in dm[1]:
            ref.add_cell(ctx, column, "dtype", rowkeys[i], values[i], "schema", i)
        dtype_bad = True
    nulls = [i for i, v in enumerate(values) if is_null(v)]
    if not comp["nullable"]:
        for i in nulls:
            ref.add_cell(ctx, column, "not_nullable", rowkeys[i], None, "nullable", i)
    if comp["unique"]:
        if len(nulls) >= 2:
            ref.unspec.append("uniqueness with >= 2 nulls")
        groups = {}
        for i, v in enumerate(values):
            if is_null(v):
                continue
            key = (v if not isinstance(v, bool) else ("bool", v))
            try:
                groups.setdefault(key, []).append(i)
            except TypeError:
                ref.unspec.append("unhashable value under unique")
        if any(isinstance(v, bool) for v in values) and any(_num(v) for v in values):
            ref.unspec.append("uniqueness across bool/number")
        rd = comp["report_duplicates"]
        for key, idxs in groups.items():
            if len(idxs) < 2:
                continue
            rep = idxs if rd == "all" else (idxs[1:] if rd == "exclude_first" else idxs[:-1])
            for i in rep:
                ref.add_cell(ctx, column, "field_uniqueness", rowkeys[i], values[i], "data", i)
    for ci, chk in enumerate(comp["checks"]):
        kw = chk.get("kw") or {}
        if kw.get("raise_warning"):
            continue  # never fails validation
        if kw.get("groupby") is not None or kw.get("element_wise"):
            ref.report_unspec.append("check options outside the declarative vocabulary")
        if chk["k"] == "custom_false":
            ref.add_frame(f"check#{ci}", "data", ctx, column, False)
            continue
        if chk["k"] == "custom_raise":
            ref.add_frame(f"check#{ci}", "data", ctx, column, "CHECK_ERROR")
            ref.unspec_checks.add((ctx, column, f"check#{ci}"))
            continue
        ignore_na = kw.get("ignore_na", True)
        for i, v in enumerate(values):
            if is_null(v):
                if not ignore_na:
                    ref.unspec.append("null element under ignore_na=False")
                continue
            p = predicate(chk, v)
            if p is None:
                if dtype_bad:
                    ref.report_unspec.append("check on wrongly typed data")
                else:
                    ref.unspec.append(f"predicate {chk['k']} undefined on {type(v).__name__}")
            elif p is False:
                ref.add_cell(ctx, column, f"check#{ci}", rowkeys[i], v, "data", i)
        if dtype_bad:
            ref.report_unspec.append("check report on wrongly typed data")


def _eval_index(ref, ix_spec, table, n):
    tix = table.get("index")
    positions = list(range(n))
    if ix_spec is None:
        return
    skind = ix_spec.get("kind", "single")
    if skind == "single":
        comp = S.full(ix_spec)
        if tix is not None and tix["kind"] == "multi":
            ref.add_frame("mismatch_index", "data", "Index", comp["name"], None)
            ref.report_unspec.append("mismatch index report")
            return
        if tix is None:
            values, phys, name = positions, "int64", None
        else:
            values, phys, name = list(tix["values"]), tix["dtype"], tix.get("name")
        if comp["name"] is not None and comp["name"] != name:
            ref.add_frame("field_name", "schema", "Index", comp["name"], name)
        _eval_component(ref, comp, values, phys, "Index", comp["name"], positions, where="index")
        return
    # MultiIndex schema
    if tix is None or tix["kind"] != "multi":
        ref.unspec.append("MultiIndex schema on a flat index")
        return
    tnames = [l.get("name") for l in tix["levels"]]
    snames = [S.full(l)["name"] for l in ix_spec["levels"]]
    if None in tnames or None in snames or len(set(tnames)) != len(tnames) or tnames != snames:
        ref.unspec.append("MultiIndex level matching beyond identical unique names")
        return
    labels = [tuple(l["values"][i] for l in tix["levels"]) for i in range(n)]
    for lvl, tl in zip(ix_spec["levels"], tix["levels"]):
        comp = S.full(lvl)
        # the MultiIndex is validated as a frame indexed by itself: row keys are the label tuples
        _eval_component(ref, comp, list(tl["values"]), tl["dtype"], "MultiIndex", comp["name"], labels, where="index")
    if ix_spec.get("unique"):
        ref.unspec.append("MultiIndex joint uniqueness")


def evaluate(spec, table):
    from mc.spec.table import nrows

    ref = Ref()
    kind = spec.get("kind", "frame")
    n = nrows(table)
    labels = _labels(table)
    if len(set(map(repr, labels))) != len(labels):
        ref.report_unspec.append("duplicate index labels: row keys ambiguous")

    if kind == "series":
        comp = S.full(spec)
        c0 = table["cols"][0]
        sname = table.get("series_name", c0["name"])
        if comp["name"] is not None and comp["name"] != sname:
            ref.add_frame("field_name", "schema", "SeriesSchema", comp["name"], sname)
        _eval_component(ref, comp, list(c0["values"]), c0["dtype"], "SeriesSchema", comp["name"], labels)
        _eval_index(ref, spec.get("index"), table, n)
        return ref

    if kind == "index":
        _eval_index(ref, dict(spec, kind="single"), table, n)
        return ref
    if kind == "multiindex":
        _eval_index(ref, dict(spec, kind="multi"), table, n)
        return ref

    tnames = [c["name"] for c in table["cols"]]
    dup_labels = len(set(tnames)) != len(tnames)

    if kind == "column":
        comp = S.full(spec)
        if dup_labels:
            ref.unspec.append("duplicate column labels")
        targets = [c for c in table["cols"] if (re.match(comp["name"], str(c["name"])) if comp["regex"] else c["name"] == comp["name"])]
        if not targets:
            ref.unspec.append("stand-alone Column on a frame without that column")
        for c in targets:
            _eval_component(ref, comp, list(c["values"]), c["dtype"], "Column", c["name"], labels)
        return ref

    s = S.full(spec, S.FRAME_DEFAULTS)
    if dup_labels:
        if s["unique_column_names"]:
            ref.add_frame("dataframe_column_labels_unique", "schema")
        ref.unspec.append("duplicate column labels")
    if s["dtype"] is not None:
        ref.unspec.append("frame-level dtype")
    matched_by = {}      # table column position -> schema column index
    schema_order = []    # table column names in schema order (regex expanded)
    any_regex = False
    for si, sc in enumerate(s["cols"]):
        sc = S.full(sc)
        if sc["regex"]:
            any_regex = True
            hits = [j for j, nm in enumerate(tnames) if re.match(sc["name"], str(nm))]
            if not hits:
                if sc["required"]:
                    ref.add_frame("no_regex_column_match", "schema", "Column", sc["name"], None)
                    ref.report_unspec.append("regex no-match report")
                else:
                    ref.unspec.append("optional regex column matching nothing")
        else:
            hits = [j for j, nm in enumerate(tnames) if nm == sc["name"]]
            if not hits and sc["required"]:
                if s["add_missing_columns"]:
                    ref.unspec.append("add_missing_columns is a parser")
                else:
                    ref.add_frame("column_in_dataframe", "schema", "DataFrameSchema", None, sc["name"])
        for j in hits:
            if j in matched_by:
                ref.unspec.append("table column matched by two schema columns")
            matched_by[j] = si
            schema_order.append(tnames[j])
            c = table["cols"][j]
            _eval_component(ref, sc, list(c["values"]), c["dtype"], "Column", c["name"], labels)
    extra = [tnames[j] for j in range(len(tnames)) if j not in matched_by]
    if s["strict"] is True and extra:
        ref.add_frame("column_in_schema", "schema", "DataFrameSchema", None, extra[0])
    if s["strict"] == "filter":
        ref.unspec.append("strict='filter' is a parser")
    if s["ordered"]:
        if any_regex or dup_labels:
            ref.unspec.append("ordered with regex / duplicate labels")
        else:
            present = [tnames[j] for j in range(len(tnames)) if j in matched_by]
            if present != schema_order:
                # first table column that is out of place
                bad = next(a for a, b in zip(present, schema_order) if a != b)
                ref.add_frame("column_ordered", "schema", "DataFrameSchema", None, bad)
                if s["strict"] is True and extra:
                    ref.report_unspec.append("strict and ordered both violated: only the first is raised")
    if s["unique"]:
        subsets = [s["unique"]] if all(isinstance(x, str) for x in s["unique"]) else s["unique"]
        for subset in subsets:
            if any(tnames.count(nm) != 1 for nm in subset):
                ref.unspec.append("joint uniqueness over absent/duplicated columns")
                continue
            cols = [table["cols"][tnames.index(nm)]["values"] for nm in subset]
            rows = list(zip(*cols)) if cols else []
            if any(any(is_null(v) for v in r) for r in rows):
                ref.unspec.append("joint uniqueness with nulls")
                continue
            groups = {}
            for i, r in enumerate(rows):
                groups.setdefault(tuple(("b", v) if isinstance(v, bool) else v for v in r), []).append(i)
            rd = s["report_duplicates"]
            found = False
            for key, idxs in groups.items():
                if len(idxs) < 2:
                    continue
                found = True
                rep = idxs if rd == "all" else (idxs[1:] if rd == "exclude_first" else idxs[:-1])
                for i in rep:
                    for nm, colv in zip(subset, cols):
                        ref.add_cell("DataFrameSchema", nm, "multiple_fields_uniqueness", labels[i], colv[i], "data", i)
            if found and len(subsets) > 1:
                ref.report_unspec.append("several joint-uniqueness sets: only the first failing one is reported")
                break
    for ci, chk in enumerate(s["checks"]):
        if chk["k"].startswith("custom"):
            ref.unspec.append("custom frame-level check")
            continue
        for c in table["cols"]:
            for i, v in enumerate(c["values"]):
                if is_null(v):
                    continue
                p = predicate(chk, v)
                if p is None:
                    ref.unspec.append("frame-level check on a column of another kind")
                elif p is False:
                    ref.add_cell("DataFrameSchema", c["name"], f"check#{ci}", labels[i], v, "data", i)
    _eval_index(ref, s["index"], table, n)
    return ref
