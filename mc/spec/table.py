"""Backend-neutral table specs (plain JSON) -> pandas / polars objects, and value snapshots.

table = {"cols": [{"name": str, "dtype": str, "values": [...]}, ...],
         "index": None
                | {"kind": "single", "values": [...], "dtype": str, "name": str|None}
                | {"kind": "multi", "levels": [{"values": [...], "dtype": str, "name": str|None}, ...]}}

dtype strings are pandas spellings: int64 float64 object bool datetime64[ns] Int64 string category.
JSON null stands for the dtype's missing value.  Datetimes are ISO strings.
"""
from __future__ import annotations

import copy
import math

_PD = None


def _pd():
    global _PD
    if _PD is None:
        import pandas as pd

        _PD = pd
    return _PD


def nrows(table):
    if table["cols"]:
        return len(table["cols"][0]["values"])
    idx = table.get("index")
    if idx is None:
        return 0
    if idx["kind"] == "single":
        return len(idx["values"])
    return len(idx["levels"][0]["values"])


def _series(values, dtype):
    pd = _pd()
    if dtype == "datetime64[ns]":
        return pd.Series(pd.to_datetime(values), dtype="datetime64[ns]") if values else pd.Series([], dtype=dtype)
    if dtype == "timedelta64[ns]":
        return pd.Series(pd.to_timedelta(list(values)), dtype="timedelta64[ns]") if values else pd.Series([], dtype=dtype)
    if dtype == "object":
        return pd.Series(list(values), dtype="object")
    if dtype == "category":
        return pd.Series(list(values), dtype="object").astype("category")
    if isinstance(dtype, str) and dtype.startswith("cat:"):
        parts = dtype.split(":")
        return pd.Series(pd.Categorical(list(values), categories=[x for x in parts[1].split(",") if x], ordered=(len(parts) > 2 and parts[2] == "o")))
    return pd.Series(list(values), dtype=dtype)


def _index(spec, n):
    pd = _pd()
    if spec is None:
        return pd.RangeIndex(n)
    if spec["kind"] == "single":
        rng = spec.get("range")
        if rng and list(spec["values"]) == [rng[0] + i * rng[1] for i in range(len(spec["values"]))] and spec["values"]:
            # a genuine pd.RangeIndex that does not start at 0 / has a step (labels != positions)
            return pd.RangeIndex(rng[0], rng[0] + len(spec["values"]) * rng[1], rng[1], name=spec.get("name"))
        s = _series(spec["values"], spec["dtype"])
        return pd.Index(s, name=spec.get("name"))
    arrays = [_series(l["values"], l["dtype"]).array for l in spec["levels"]]
    return pd.MultiIndex.from_arrays(arrays, names=[l.get("name") for l in spec["levels"]])


def to_pandas(table):
    pd = _pd()
    n = nrows(table)
    idx = _index(table.get("index"), n)
    data = {}
    for i, c in enumerate(table["cols"]):
        s = _series(c["values"], c["dtype"])
        s.index = idx
        data[i] = s
    df = pd.DataFrame(data, index=idx)
    df.columns = pd.Index([c["name"] for c in table["cols"]], dtype="object") if table["cols"] else pd.Index([], dtype="object")
    return df


def to_pandas_series(table, name="__same__"):
    """First column as a Series (name = column name unless given)."""
    c = table["cols"][0]
    s = _series(c["values"], c["dtype"])
    s.index = _index(table.get("index"), len(c["values"]))
    s.name = c["name"] if name == "__same__" else name
    return s


_PL_DTYPES = None


def to_polars(table, lazy=False):
    import polars as pl

    mapping = {"int64": pl.Int64, "float64": pl.Float64, "object": pl.Utf8, "string": pl.Utf8, "bool": pl.Boolean,
               "datetime64[ns]": pl.Datetime("ns"), "Int64": pl.Int64}
    cols = {}
    for c in table["cols"]:
        vals = list(c["values"])
        dt = mapping[c["dtype"]]
        if c["dtype"] == "datetime64[ns]":
            import datetime as _dt

            vals = [None if v is None else _dt.datetime.fromisoformat(v) for v in vals]
        cols[c["name"]] = pl.Series(c["name"], vals, dtype=dt, strict=False)
    df = pl.DataFrame(cols)
    return df.lazy() if lazy else df


def polars_representable(table):
    if table.get("index") is not None:
        return False
    names = [c["name"] for c in table["cols"]]
    if len(set(names)) != len(names):
        return False
    for c in table["cols"]:
        if c["dtype"] not in ("int64", "float64", "object", "bool", "datetime64[ns]", "string"):
            return False
        if c["dtype"] == "object" and any(not (v is None or isinstance(v, str)) for v in c["values"]):
            return False
    return True


# ---------------------------------------------------------------------------------------------
# normalisation / snapshots
def norm(v):
    """Python scalar for comparison; every missing value -> None."""
    pd = _pd()
    import numpy as np

    if v is None:
        return None
    if v is pd.NA or v is pd.NaT:
        return None
    if isinstance(v, float):
        return None if math.isnan(v) else v
    if isinstance(v, (np.floating,)):
        f = float(v)
        return None if math.isnan(f) else f
    if isinstance(v, (bool, np.bool_)):
        return bool(v)
    if isinstance(v, (np.integer,)):
        return int(v)
    if isinstance(v, pd.Timestamp):
        return v.isoformat()
    if isinstance(v, np.datetime64):
        return None if np.isnat(v) else pd.Timestamp(v).isoformat()
    if isinstance(v, tuple):
        return tuple(norm(x) for x in v)
    if isinstance(v, list):
        return [norm(x) for x in v]
    if isinstance(v, dict):
        return {k: norm(x) for k, x in v.items()}
    return v


def snap_index(idx):
    pd = _pd()
    if isinstance(idx, pd.MultiIndex):
        return {"kind": "multi", "names": list(idx.names), "dtypes": [str(idx.get_level_values(i).dtype) for i in range(idx.nlevels)],
                "values": [norm(tuple(t)) for t in idx.tolist()]}
    return {"kind": type(idx).__name__ if isinstance(idx, pd.RangeIndex) else "Index", "name": idx.name,
            "dtype": str(idx.dtype), "values": [norm(v) for v in idx.tolist()]}


def snap_pandas(obj):
    """Deep value snapshot of a DataFrame / Series / Index (JSON-able, id independent)."""
    pd = _pd()
    if isinstance(obj, pd.DataFrame):
        cols = []
        for i in range(obj.shape[1]):
            s = obj.iloc[:, i]
            cols.append({"name": norm(obj.columns[i]), "dtype": str(s.dtype), "values": [norm(v) for v in s.tolist()]})
        return {"type": "DataFrame", "cols": cols, "columns_dtype": str(obj.columns.dtype),
                "columns_name": obj.columns.name, "index": snap_index(obj.index), "attrs": dict(obj.attrs)}
    if isinstance(obj, pd.Series):
        return {"type": "Series", "name": norm(obj.name), "dtype": str(obj.dtype),
                "values": [norm(v) for v in obj.tolist()], "index": snap_index(obj.index), "attrs": dict(obj.attrs)}
    if isinstance(obj, pd.Index):
        return {"type": "Index", "index": snap_index(obj)}
    return {"type": type(obj).__name__, "repr": repr(obj)[:200]}


def snap_polars(obj):
    import polars as pl

    kind = "LazyFrame" if isinstance(obj, pl.LazyFrame) else ("DataFrame" if isinstance(obj, pl.DataFrame) else type(obj).__name__)
    if kind == "LazyFrame":
        df = obj.collect()
    elif kind == "DataFrame":
        df = obj
    else:
        return {"type": kind, "repr": repr(obj)[:200]}
    cols = []
    for name in df.columns:
        s = df.get_column(name)
        vals = []
        for v in s.to_list():
            if isinstance(v, float) and math.isnan(v):
                vals.append("NaN")
            elif hasattr(v, "isoformat"):
                vals.append(v.isoformat())
            else:
                vals.append(v)
        cols.append({"name": name, "dtype": str(s.dtype), "values": vals})
    return {"type": kind, "cols": cols}


def clone(table):
    return copy.deepcopy(table)
