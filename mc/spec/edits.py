"""Edit alphabets: base (schema, conforming table) pairs and the schema / data edits applied to them.

Every edit is a JSON list so that cases, replays and evidence samples are plain data.
"one edit per shortcut visible in the code" -- see DESIGN.md section 2.
"""
from __future__ import annotations

import copy
import itertools
import json

from mc.spec import schema as S

# ---------------------------------------------------------------------------------------------
# bases
T1 = {"cols": [{"name": "a", "dtype": "int64", "values": [1, 2, 3]},
               {"name": "b", "dtype": "object", "values": ["x", "yy", "z"]},
               {"name": "c", "dtype": "float64", "values": [1.5, 2.5, 3.5]}],
      "index": None}


def _t(**kw):
    t = copy.deepcopy(T1)
    t.update(kw)
    return t


BASES = {
    "frame": (S.frame(cols=[S.comp(name="a", dtype="int64"), S.comp(name="b", dtype="str"), S.comp(name="c", dtype="float64")]),
              _t()),
    "frame_index": (S.frame(cols=[S.comp(name="a", dtype="int64"), S.comp(name="b", dtype="str"), S.comp(name="c", dtype="float64")],
                            index=dict(S.comp(name="idx", dtype="int64"), kind="single")),
                    _t(index={"kind": "single", "values": [10, 20, 30], "dtype": "int64", "name": "idx"})),
    "frame_multi": (S.frame(cols=[S.comp(name="a", dtype="int64"), S.comp(name="b", dtype="str")],
                            index={"kind": "multi", "levels": [S.comp(name="k1", dtype="str"), S.comp(name="k2", dtype="int64")],
                                   "strict": False, "ordered": True, "unique": None, "coerce": False}),
                    {"cols": copy.deepcopy(T1["cols"][:2]),
                     "index": {"kind": "multi", "levels": [{"values": ["p", "q", "r"], "dtype": "object", "name": "k1"},
                                                           {"values": [1, 2, 3], "dtype": "int64", "name": "k2"}]}}),
    # a corner of the parser space as a base (parser-enabled properties only): optional column absent from the conforming table,
    # defaulted and nullable columns, ordered + add_missing_columns -- so that the column-insertion logic is one data edit away
    "frame_parsing": (S.frame(cols=[S.comp(name="a", dtype="int64"), S.comp(name="n", dtype="str", required=False),
                                    S.comp(name="q", dtype="int64", default=7), S.comp(name="c", dtype="float64", nullable=True)],
                              ordered=True, add_missing_columns=True),
                      {"cols": [{"name": "a", "dtype": "int64", "values": [1, 2, 3]}, {"name": "q", "dtype": "int64", "values": [1, 2, 3]},
                                {"name": "c", "dtype": "float64", "values": [1.5, 2.5, 3.5]}], "index": None}),
    # two categorical columns with DIFFERENT parametrised categorical types (whatever is remembered about "the" categorical dtype of a
    # container must be remembered per dtype object, not per dtype name)
    "frame_categorical": (S.frame(cols=[S.comp(name="g", dtype="cat:p,q"), S.comp(name="h", dtype="cat:x,y"), S.comp(name="a", dtype="int64")]),
                          {"cols": [{"name": "g", "dtype": "cat:p,q", "values": ["p", "q", "p"]}, {"name": "h", "dtype": "cat:x,y", "values": ["x", "y", "y"]},
                                    {"name": "a", "dtype": "int64", "values": [1, 2, 3]}], "index": None}),
    # an UNORDERED, coercing MultiIndex: data levels may come in another order than the schema's (one data edit away: mixswap)
    "frame_multi_unordered": (S.frame(cols=[S.comp(name="a", dtype="int64"), S.comp(name="b", dtype="str")],
                                      index={"kind": "multi", "levels": [S.comp(name="k1", dtype="str"), S.comp(name="k2", dtype="int64")],
                                             "strict": False, "ordered": False, "unique": None, "coerce": True}),
                              {"cols": copy.deepcopy(T1["cols"][:2]),
                               "index": {"kind": "multi", "levels": [{"values": ["p", "q", "r"], "dtype": "object", "name": "k1"},
                                                                     {"values": [1, 2, 3], "dtype": "int64", "name": "k2"}]}}),
    # a coercing string Index (value-dependent dtype on an object index): stand-alone and under a SeriesSchema
    "index_parsing": (dict(S.comp(name="idx", dtype="str", coerce=True), kind="index"),
                      _t(index={"kind": "single", "values": ["p", "q", "r"], "dtype": "object", "name": "idx"})),
    "series_index_parsing": (dict(S.comp(name="a", dtype="int64"), kind="series", index=dict(S.comp(name="idx", dtype="str", coerce=True), kind="single")),
                             {"cols": copy.deepcopy(T1["cols"][:1]),
                              "index": {"kind": "single", "values": ["p", "q", "r"], "dtype": "object", "name": "idx"}}),
    "series": (dict(S.comp(name="a", dtype="int64"), kind="series", index=None),
               {"cols": copy.deepcopy(T1["cols"][:1]), "index": None}),
    "series_index": (dict(S.comp(name="a", dtype="int64"), kind="series", index=dict(S.comp(name="idx", dtype="int64"), kind="single")),
                     {"cols": copy.deepcopy(T1["cols"][:1]),
                      "index": {"kind": "single", "values": [10, 20, 30], "dtype": "int64", "name": "idx"}}),
    "column": (dict(S.comp(name="a", dtype="int64"), kind="column"), _t()),
    "column_str": (dict(S.comp(name="b", dtype="str"), kind="column"), _t()),
    "index": (dict(S.comp(name="idx", dtype="int64"), kind="index"),
              _t(index={"kind": "single", "values": [10, 20, 30], "dtype": "int64", "name": "idx"})),
    "multiindex": ({"kind": "multiindex", "levels": [S.comp(name="k1", dtype="str"), S.comp(name="k2", dtype="int64")],
                    "strict": False, "ordered": True, "unique": None, "coerce": False},
                   {"cols": copy.deepcopy(T1["cols"][:2]),
                    "index": {"kind": "multi", "levels": [{"values": ["p", "q", "r"], "dtype": "object", "name": "k1"},
                                                          {"values": [1, 2, 3], "dtype": "int64", "name": "k2"}]}}),
}

CHECKS_BY_KIND = {
    "int": [
        {"k": "ge", "a": [2]}, {"k": "gt", "a": [2]}, {"k": "le", "a": [2]}, {"k": "lt", "a": [2]},
        {"k": "eq", "a": [2]}, {"k": "ne", "a": [2]},
        {"k": "in_range", "a": [1, 2]}, {"k": "in_range", "a": [1, 3, False, True]},
        {"k": "in_range", "a": [1, 3, True, False]}, {"k": "in_range", "a": [2, 2]},
        {"k": "isin", "a": [[1, 2]]}, {"k": "notin", "a": [[2]]}, {"k": "isin", "a": [[1, 2, 3, 4]]},
        {"k": "custom_raise", "a": []},   # a user check that raises: CHECK_ERROR, must not hide the other checks' reports
    ],
    "float": [
        {"k": "ge", "a": [2.5]}, {"k": "gt", "a": [2.5]}, {"k": "le", "a": [2.5]}, {"k": "lt", "a": [2.5]},
        {"k": "in_range", "a": [1.5, 3.5, False, False]}, {"k": "isin", "a": [[1.5, 2.5]]}, {"k": "ne", "a": [2.5]},
    ],
    "str": [
        {"k": "str_matches", "a": ["^x"]}, {"k": "str_matches", "a": ["y"]}, {"k": "str_contains", "a": ["y"]},
        {"k": "str_startswith", "a": ["x"]}, {"k": "str_endswith", "a": ["z"]},
        {"k": "str_length", "a": [1, 1]}, {"k": "str_length", "a": [2, None]}, {"k": "str_length", "a": [None, 1]},
        {"k": "isin", "a": [["x", "yy"]]}, {"k": "notin", "a": [["z"]]}, {"k": "eq", "a": ["x"]}, {"k": "ne", "a": ["x"]},
        {"k": "ge", "a": ["y"]}, {"k": "str_matches", "a": ["x|z"]},
    ],
}
KIND_OF_DTYPE = {"int64": "int", "float64": "float", "str": "str"}

CELL_VALUES = {
    # (new value, new physical dtype or None to keep)
    "int64": [(0, None), (2, None), (4, None), (-2, None), (None, "float64"), ("q", "object")],
    "float64": [(0.5, None), (2.5, None), (None, None)],
    "object": [("x", None), ("", None), (None, None), ("xz", None), (5, None), (" x ", None), ("\u00e9", None)],   # é: 1 character, 2 bytes
}


# ---------------------------------------------------------------------------------------------
# locating components
def _targets(spec):
    """[(target id, component dict)] of a schema spec."""
    kind = spec.get("kind", "frame")
    out = []
    if kind == "frame":
        for c in spec["cols"]:
            out.append((f"col:{c['name']}", c))
    elif kind == "multiindex":
        for l in spec["levels"]:
            out.append((f"level:{l['name']}", l))
        return out
    else:
        out.append(("self", spec))
    ix = spec.get("index")
    if ix is not None:
        if ix.get("kind", "single") == "single":
            out.append(("index", ix))
        else:
            for l in ix["levels"]:
                out.append((f"level:{l['name']}", l))
    return out


def _get_target(spec, tid):
    for t, c in _targets(spec):
        if t == tid:
            return c
    raise KeyError(tid)


def schema_edits(spec, parsers=False, rich=True):
    """All single schema edits applicable to spec."""
    eds = []
    kind = spec.get("kind", "frame")
    for tid, c in _targets(spec):
        eds.append(["set", tid, "nullable", True])
        eds.append(["set", tid, "unique", True])
        if rich:
            eds.append(["set2", tid, {"unique": True, "report_duplicates": "exclude_first"}])
            eds.append(["set2", tid, {"unique": True, "report_duplicates": "exclude_last"}])
        dk = KIND_OF_DTYPE.get(c["dtype"])
        for chk in CHECKS_BY_KIND.get(dk, []):
            eds.append(["addcheck", tid, chk])
        if rich:
            other = {"int64": ["float64", "str", "Int64"], "float64": ["int64"], "str": ["int64", "object"]}.get(c["dtype"], [])
            if str(c["dtype"]).startswith("cat:"):
                other = [c["dtype"].split(":")[0] + ":" + c["dtype"].split(":")[1] + ",zz", "category"]
            for d in other:
                eds.append(["set", tid, "dtype", d])
            eds.append(["set", tid, "dtype", None])
        if tid.startswith("col:"):
            eds.append(["set", tid, "required", False])
            eds.append(["regex", tid, c["name"] + ".*"])
        if tid in ("index",) or tid.startswith("level:"):
            eds.append(["set", tid, "name", None]) if tid == "index" else None
        if parsers:
            eds.append(["set", tid, "coerce", True])
            if tid.startswith("col:") or tid == "self":
                dflt = {"int64": 7, "float64": 7.5, "str": "dflt"}.get(c["dtype"])
                if dflt is not None:
                    eds.append(["set", tid, "default", dflt])
                if c["dtype"] in ("int64", "float64"):
                    eds.append(["set", tid, "parsers", ["abs"]])
                if c["dtype"] == "str":
                    eds.append(["set", tid, "parsers", ["strip"]])
            if kind != "frame" or tid.startswith("col:"):
                pass
    if kind == "frame":
        names = [c["name"] for c in spec["cols"]]
        eds.append(["frame", "strict", True])
        eds.append(["frame", "ordered", True])
        eds.append(["frame", "unique", names[:2]])
        eds.append(["frame", "unique", names[:1]])
        if len(names) >= 2:
            # several joint-uniqueness sets (list of lists): every set must hold, whichever position it has in the list
            eds.append(["frame", "unique", [names[:1], names[1:2]]])
            eds.append(["frame", "unique", [names[1:2], names[:1]]])
            if rich and len(names) >= 3:
                eds.append(["frame", "unique", [[names[0], names[2]], [names[0], names[1]]]])
        if rich:
            eds.append(["frame2", {"unique": names[:2], "report_duplicates": "exclude_first"}])
            eds.append(["frame2", {"unique": names[:2], "report_duplicates": "exclude_last"}])
            eds.append(["frame", "unique_column_names", True])
            eds.append(["frame", "checks", [{"k": "ne", "a": [2]}]])
        if spec.get("index") is None:
            eds.append(["addindex", dict(S.comp(dtype="int64"), kind="single")])
            # an index schema whose check fails for the LAST row of the default index (row-level index errors interact with
            # row-level column errors, e.g. under drop_invalid_rows)
            eds.append(["addindex", dict(S.comp(dtype="int64", checks=[{"k": "le", "a": [1]}]), kind="single")])
            if rich:
                eds.append(["addindex", dict(S.comp(dtype="int64", unique=True, checks=[{"k": "ge", "a": [1]}]), kind="single")])
                eds.append(["addindex", dict(S.comp(dtype="str", name="idx"), kind="single")])
        if parsers:
            eds.append(["frame", "coerce", True])
            eds.append(["frame", "strict", "filter"])
            eds.append(["frame", "add_missing_columns", True])
            eds.append(["frame", "drop_invalid_rows", True])
    elif kind == "multiindex":
        if parsers:
            eds.append(["frame", "coerce", True])
    elif parsers:
        eds.append(["set", "self", "drop_invalid_rows", True])
    return [e for e in eds if e is not None]


def apply_schema_edit(spec, e):
    s = copy.deepcopy(spec)
    op = e[0]
    if op == "set":
        _get_target(s, e[1])[e[2]] = copy.deepcopy(e[3])
    elif op == "set2":
        _get_target(s, e[1]).update(copy.deepcopy(e[2]))
    elif op == "addcheck":
        t = _get_target(s, e[1])
        t["checks"] = list(t["checks"]) + [copy.deepcopy(e[2])]
    elif op == "regex":
        t = _get_target(s, e[1])
        t["name"] = e[2]
        t["regex"] = True
    elif op == "frame":
        s[e[1]] = copy.deepcopy(e[2])
    elif op == "frame2":
        s.update(copy.deepcopy(e[1]))
    elif op == "addindex":
        s["index"] = copy.deepcopy(e[1])
    else:
        raise AssertionError(e)
    return s


def schema_edit_target(e):
    if e[0] in ("set", "set2", "addcheck", "regex"):
        return e[1]
    return "frame"


# ---------------------------------------------------------------------------------------------
def data_edits(table, rich=True):
    eds = []
    n = len(table["cols"][0]["values"]) if table["cols"] else 0
    for c in table["cols"]:
        for r in range(n):
            for v, nd in CELL_VALUES.get(c["dtype"], []):
                if c["values"][r] == v and nd is None:
                    continue
                eds.append(["cell", c["name"], r, v, nd])
    if n:
        eds.append(["duprow", 0])
        eds.append(["duprow", n - 1])
        eds.append(["droprow", 0])
    eds.append(["empty"])
    names = [c["name"] for c in table["cols"]]
    for nm in names:
        eds.append(["dropcol", nm])
    eds.append(["addcol", "z", "end"])
    eds.append(["addcol", "a2", "end"])   # matched by the regex edit "a.*": a regex column with two matches, the first of which may be the failing one
    if rich:
        eds.append(["addcol", "z", "front"])
    if len(names) >= 2:
        eds.append(["swapcols", 0, 1])
    if rich:
        eds.append(["duplabel", names[0]])
    for c in table["cols"]:
        cat_alts = []
        if str(c["dtype"]).startswith("cat:"):
            base_c = c["dtype"].split(":")[1]
            cat_alts = [x for x in (f"cat:{base_c},zz", f"cat:{base_c}:o", "object") if x != c["dtype"]]
        for nd in {"int64": ["float64", "object", "Int64", "numstr", "Int64na"], "object": ["string"], "float64": []}.get(c["dtype"], cat_alts):
            if nd in ("Int64", "string") and not rich:
                continue
            eds.append(["coldtype", c["name"], nd])   # "Int64na": nullable-extension integers holding one <NA>
    ix = table.get("index")
    if ix is None:
        eds.append(["index", {"kind": "single", "values": ["r%d" % i for i in range(n)], "dtype": "object", "name": None}])
        eds.append(["index", {"kind": "single", "values": [7] * max(n - 1, 0) + [8] * min(n, 1), "dtype": "int64", "name": None}])
        # a RangeIndex whose labels are not the row positions (what df.iloc[k:] or df[::2] leave behind)
        eds.append(["index", {"kind": "single", "values": [5 + 2 * i for i in range(n)], "dtype": "int64", "name": None, "range": [5, 2]}])
        if rich:
            eds.append(["index", {"kind": "single", "values": list(range(n))[::-1], "dtype": "int64", "name": "idx"}])
            eds.append(["index", {"kind": "multi", "levels": [{"values": ["p", "q", "r"][:n], "dtype": "object", "name": "k1"},
                                                               {"values": [1, 2, 3][:n], "dtype": "int64", "name": "k2"}]}])
    elif ix["kind"] == "single":
        for r in range(n):
            eds.append(["ixcell", r, 20 if r != 1 else 10])
            if rich:
                eds.append(["ixcell", r, 0])
        eds.append(["ixname", None])
        eds.append(["ixname", "other"])
        eds.append(["ixdtype", "float64"])
        if rich:
            eds.append(["ixdtype", "object"])
            eds.append(["index", None])
    else:
        for li, l in enumerate(ix["levels"]):
            for r in range(n):
                v = l["values"][(r + 1) % n]
                eds.append(["mixcell", li, r, v])
            if rich and l["dtype"] == "int64":
                eds.append(["mixcell", li, 0, 0])
        eds.append(["mixname", 0, "other"])
        if rich:
            eds.append(["mixswap"])
            eds.append(["mixdtype", 1, "float64"])
    return eds


def apply_data_edit(table, e):
    t = copy.deepcopy(table)
    op = e[0]
    cols = t["cols"]
    n = len(cols[0]["values"]) if cols else 0

    def col(name):
        for c in cols:
            if c["name"] == name:
                return c
        return None

    def each_vector():
        for c in cols:
            yield c
        ix = t.get("index")
        if ix is not None:
            if ix["kind"] == "single":
                yield ix
            else:
                for l in ix["levels"]:
                    yield l

    if op == "cell":
        c = col(e[1])
        if c is None or e[2] >= len(c["values"]):
            return None
        c["values"][e[2]] = e[3]
        if c["dtype"] not in ("int64", "float64", "object"):
            return None
        if c["dtype"] in ("int64", "float64"):
            vals = c["values"]
            if any(isinstance(v, str) for v in vals):
                c["dtype"] = "object"
            elif any(v is None or isinstance(v, float) for v in vals):
                c["dtype"] = "float64"
                c["values"] = [None if v is None else float(v) for v in vals]
    elif op == "duprow":
        if e[1] >= n:
            return None
        for v in each_vector():
            v["values"].append(v["values"][e[1]])
    elif op == "droprow":
        if e[1] >= n:
            return None
        for v in each_vector():
            del v["values"][e[1]]
    elif op == "empty":
        for v in each_vector():
            v["values"] = []
    elif op == "dropcol":
        if col(e[1]) is None or len(cols) == 1:
            return None
        t["cols"] = [c for c in cols if c["name"] != e[1]]
    elif op == "addcol":
        if col(e[1]) is not None:
            return None
        src = col("a") if e[1] == "a2" else None
        new = {"name": e[1], "dtype": "int64", "values": list(src["values"]) if (src and src["dtype"] == "int64") else [5] * n}
        if e[2] == "end":
            cols.append(new)
        else:
            cols.insert(0, new)
    elif op == "swapcols":
        if len(cols) < 2:
            return None
        cols[e[1]], cols[e[2]] = cols[e[2]], cols[e[1]]
    elif op == "duplabel":
        c = col(e[1])
        if c is None:
            return None
        cols.append(copy.deepcopy(c))
    elif op == "coldtype":
        c = col(e[1])
        if c is None:
            return None
        if e[2] == "Int64na":
            if not c["values"] or any(not isinstance(v, int) or isinstance(v, bool) for v in c["values"]):
                return None
            c["values"][min(1, len(c["values"]) - 1)] = None
            c["dtype"] = "Int64"
            return t
        if e[2] in ("float64", "Int64") and any(not (v is None or (isinstance(v, (int, float)) and not isinstance(v, bool))) for v in c["values"]):
            return None
        if e[2] == "string" and any(not (v is None or isinstance(v, str)) for v in c["values"]):
            return None
        if e[2] == "float64":
            c["values"] = [None if v is None else float(v) for v in c["values"]]
        if e[2] == "numstr":
            if any(not isinstance(v, int) or isinstance(v, bool) for v in c["values"]):
                return None
            c["values"] = [str(v) for v in c["values"]]
            c["dtype"] = "object"
            return t
        c["dtype"] = e[2]
    elif op == "index":
        ix = copy.deepcopy(e[1])
        if ix is not None:
            vecs = [ix] if ix["kind"] == "single" else ix["levels"]
            for v in vecs:
                if v.get("range") and len(v["values"]) != n:
                    v["values"] = [v["range"][0] + i * v["range"][1] for i in range(n)]
                if len(v["values"]) != n:
                    # re-fit to the current length
                    base = v["values"]
                    v["values"] = [base[i % len(base)] if base else None for i in range(n)] if base else []
                    if len(v["values"]) != n:
                        return None
        t["index"] = ix
    elif op == "ixcell":
        ix = t.get("index")
        if ix is None or ix["kind"] != "single" or e[1] >= n:
            return None
        ix["values"][e[1]] = e[2]
    elif op == "ixname":
        ix = t.get("index")
        if ix is None or ix["kind"] != "single":
            return None
        ix["name"] = e[1]
    elif op == "ixdtype":
        ix = t.get("index")
        if ix is None or ix["kind"] != "single":
            return None
        if e[1] == "float64":
            if any(isinstance(v, str) for v in ix["values"]):
                return None
            ix["values"] = [None if v is None else float(v) for v in ix["values"]]
        ix["dtype"] = e[1]
    elif op == "mixcell":
        ix = t.get("index")
        if ix is None or ix["kind"] != "multi" or e[2] >= n:
            return None
        ix["levels"][e[1]]["values"][e[2]] = e[3]
    elif op == "mixname":
        ix = t.get("index")
        if ix is None or ix["kind"] != "multi":
            return None
        ix["levels"][e[1]]["name"] = e[2]
    elif op == "mixswap":
        ix = t.get("index")
        if ix is None or ix["kind"] != "multi":
            return None
        ix["levels"].reverse()
    elif op == "mixdtype":
        ix = t.get("index")
        if ix is None or ix["kind"] != "multi":
            return None
        l = ix["levels"][e[1]]
        if any(not (v is None or (isinstance(v, (int, float)) and not isinstance(v, bool))) for v in l["values"]):
            return None
        l["values"] = [None if v is None else float(v) for v in l["values"]]
        l["dtype"] = e[2]
    else:
        raise AssertionError(e)
    return t


def data_edit_target(e):
    op = e[0]
    if op in ("cell", "dropcol", "coldtype", "duplabel"):
        return f"col:{e[1]}"
    if op in ("ixcell", "ixname", "ixdtype", "index"):
        return "index"
    if op in ("mixcell", "mixname", "mixdtype", "mixswap"):
        return "index"
    return "frame"


# ---------------------------------------------------------------------------------------------
def canon(x):
    return json.dumps(x, sort_keys=True, default=str)


def _related(targets):
    """Edits collide when all component-targeted edits hit the same component
    (frame-level edits collide with everything)."""
    comp = {t for t in targets if t not in ("frame", "self")}   # "self": the only component of a series / column / index base
    comp = {("index" if (t == "index" or t.startswith("level:")) else t) for t in comp}
    return len(comp) <= 1


def space(base_name, ks, kd, parsers=False, rich=True, related=True, schema_filter=None, data_filter=None,
          shard=None, related_from=3, exact=None):
    """All (schema, table, edits) with <= ks schema edits and <= kd data edits of the base.
    Deduplicated by canonical JSON of (schema, table)."""
    spec0, table0 = BASES[base_name]
    sed = schema_edits(spec0, parsers=parsers, rich=rich)
    ded = data_edits(table0, rich=rich)
    if schema_filter:
        sed = [e for e in sed if schema_filter(e)]
    if data_filter:
        ded = [e for e in ded if data_filter(e)]
    seen = set()
    out = []
    sidx = -1
    for i in range(ks + 1):
        if exact is not None and i != exact[0]:
            continue
        for scomb0 in itertools.combinations(sed, i):
            sidx += 1
            if shard is not None and sidx % shard[1] != shard[0]:
                continue
            variants = [scomb0]
            adds = [e for e in scomb0 if e[0] == "addcheck"]
            if len(adds) >= 2 and len({e[1] for e in adds}) < len(adds) and any(e[2]["k"].startswith("custom") for e in adds):
                # check order matters when one of them raises / is a user check: also the reverse order
                variants.append(tuple(reversed(scomb0)))
            for scomb in variants:
                _space_one(scomb, spec0, table0, ded, kd, i, related, seen, out, base_name, related_from, exact)
    return out


def _space_one(scomb, spec0, table0, ded, kd, i, related, seen, out, base_name, related_from=3, exact=None):
    if True:
        if True:
            st = [schema_edit_target(e) for e in scomb]
            spec = spec0
            ok = True
            for e in scomb:
                try:
                    spec = apply_schema_edit(spec, e)
                except KeyError:
                    ok = False
                    break
            if not ok:
                return
            for j in range(kd + 1):
                if exact is not None and j != exact[1]:
                    continue
                for dcomb in itertools.combinations(ded, j):
                    if related and (i + j) >= related_from:
                        if not _related(st + [data_edit_target(e) for e in dcomb]):
                            continue
                    table = table0
                    for e in dcomb:
                        table = apply_data_edit(table, e)
                        if table is None:
                            break
                    if table is None:
                        continue
                    key = canon([spec, table])
                    if key in seen:
                        continue
                    seen.add(key)
                    out.append({"base": base_name, "schema": spec, "table": table,
                                "edits": [list(scomb), list(dcomb)]})
