"""Backend-neutral schema specs (plain JSON) -> pandera pandas / polars schema objects.

component = {"name", "dtype", "nullable", "unique", "required", "regex", "coerce", "default",
             "report_duplicates", "drop_invalid_rows", "checks": [check...], "parsers": [parser names]}
check     = {"k": builtin name, "a": [positional args], "kw": {check options: ignore_na, n_failure_cases, ...}}
schema    = {"kind": "frame", "cols": [component...], "index": None | component(kind=single) |
             {"kind": "multi", "levels": [component...], "strict", "ordered", "unique", "coerce"},
             "strict", "ordered", "unique", "report_duplicates", "add_missing_columns", "coerce", "dtype",
             "drop_invalid_rows", "unique_column_names", "checks", "parsers", "name"}
          | {"kind": "series", ...component..., "index": ...}
          | {"kind": "column", ...component...}
          | {"kind": "index", ...component...} | {"kind": "multiindex", ...}
"""
from __future__ import annotations

import copy

COMP_DEFAULTS = {
    "name": None, "dtype": None, "nullable": False, "unique": False, "required": True, "regex": False,
    "coerce": False, "default": None, "report_duplicates": "all", "drop_invalid_rows": False,
    "checks": [], "parsers": [], "title": None, "description": None, "metadata": None,
}
FRAME_DEFAULTS = {
    "kind": "frame", "cols": [], "index": None, "strict": False, "ordered": False, "unique": None,
    "report_duplicates": "all", "add_missing_columns": False, "coerce": False, "dtype": None,
    "drop_invalid_rows": False, "unique_column_names": False, "checks": [], "parsers": [], "name": None,
    "title": None, "description": None, "metadata": None,
}


def comp(**kw):
    d = copy.deepcopy(COMP_DEFAULTS)
    d.update(kw)
    return d


def frame(**kw):
    d = copy.deepcopy(FRAME_DEFAULTS)
    d.update(kw)
    return d


def full(c, defaults=COMP_DEFAULTS):
    d = copy.deepcopy(defaults)
    d.update(c)
    return d


# user-level parser functions referred to by name (kept picklable / JSON-able)
def _p_add1(s):
    return s + 1


def _p_strip(s):
    return s.str.strip()


def _p_abs(s):
    return s.abs()


def _p_frame_identity(df):
    return df


PARSERS = {"add1": _p_add1, "strip": _p_strip, "abs": _p_abs, "frame_identity": _p_frame_identity}


def parse_cat(dt):
    """'cat:p,q' / 'cat:p,q:o' -> (categories, ordered) for a parametrised categorical dtype spelling, else None"""
    if not (isinstance(dt, str) and dt.startswith("cat:")):
        return None
    parts = dt.split(":")
    return [x for x in parts[1].split(",") if x], (len(parts) > 2 and parts[2] == "o")


def _dtype_arg(dt):
    if dt == "str":
        return str
    pc = parse_cat(dt)
    if pc is not None:
        import pandas as pd

        return pd.CategoricalDtype(pc[0], ordered=pc[1])
    return dt


EXTRA_CHECK_BUILDERS = {}     # check kind -> callable(pa, check spec) (registered by property modules, e.g. C16's "fn")
EXTRA_PARSER_BUILDER = None   # callable(pa, parser spec dict) for dict-valued parser specs


_SHARED = {}   # share id -> Check object, valid during one top-level build (one Check *instance* attached to several components)


def build_check(pa, c):
    sid = c.get("share")
    if sid is not None:
        if sid not in _SHARED:
            _SHARED[sid] = _build_check(pa, c)
        return _SHARED[sid]
    return _build_check(pa, c)


def _build_check(pa, c):
    kw = dict(c.get("kw") or {})
    k = c["k"]
    if k in EXTRA_CHECK_BUILDERS:
        return EXTRA_CHECK_BUILDERS[k](pa, c)
    args = list(c.get("a") or [])
    if k == "custom_gt0":
        return pa.Check(lambda s: s > 0, name="custom_gt0", **kw)
    if k == "custom_gt0_elem":
        return pa.Check(lambda x: x > 0, element_wise=True, name="custom_gt0_elem", **kw)
    if k == "custom_false":
        return pa.Check(lambda s: False, name="custom_false", **kw)
    if k == "custom_raise":
        def _r(s):
            raise ValueError("user check raised")
        return pa.Check(_r, name="custom_raise", **kw)
    if k == "in_range":
        # args: min, max, include_min, include_max
        return pa.Check.in_range(args[0], args[1], *args[2:], **kw)
    return getattr(pa.Check, k)(*args, **kw)


def _checks(pa, lst):
    return [build_check(pa, c) for c in (lst or [])]


def _parsers(pa, lst):
    return [EXTRA_PARSER_BUILDER(pa, n) if isinstance(n, dict) else pa.Parser(PARSERS[n]) for n in (lst or [])]


def build_pandas_component(c, kind):
    import pandera as pa

    c = full(c)
    common = dict(checks=_checks(pa, c["checks"]), nullable=c["nullable"], unique=c["unique"],
                  report_duplicates=c["report_duplicates"], coerce=c["coerce"], name=c["name"],
                  default=c["default"], drop_invalid_rows=c["drop_invalid_rows"],
                  title=c["title"], description=c["description"], metadata=c["metadata"])
    if c["parsers"]:
        common["parsers"] = _parsers(pa, c["parsers"])
    dt = _dtype_arg(c["dtype"])
    if kind == "column":
        return pa.Column(dt, required=c["required"], regex=c["regex"], **common)
    if kind == "index":
        return pa.Index(dt, **common)
    raise AssertionError(kind)


def build_pandas_index(ix):
    import pandera as pa

    if ix is None:
        return None
    if ix.get("kind", "single") == "single":
        return build_pandas_component(ix, "index")
    levels = [build_pandas_component(l, "index") for l in ix["levels"]]
    return pa.MultiIndex(levels, coerce=ix.get("coerce", False), strict=ix.get("strict", False),
                         ordered=ix.get("ordered", True), unique=ix.get("unique"), name=ix.get("name"))


def build_pandas(spec):
    import pandera as pa

    _SHARED.clear()
    kind = spec.get("kind", "frame")
    if kind == "frame":
        s = full(spec, FRAME_DEFAULTS)
        cols = {c["name"]: build_pandas_component(c, "column") for c in s["cols"]}
        kw = {}
        if s["parsers"]:
            kw["parsers"] = _parsers(pa, s["parsers"])
        return pa.DataFrameSchema(
            cols, checks=_checks(pa, s["checks"]), index=build_pandas_index(s["index"]), dtype=_dtype_arg(s["dtype"]),
            coerce=s["coerce"], strict=s["strict"], name=s["name"], ordered=s["ordered"], unique=s["unique"],
            report_duplicates=s["report_duplicates"], unique_column_names=s["unique_column_names"],
            add_missing_columns=s["add_missing_columns"], drop_invalid_rows=s["drop_invalid_rows"],
            title=s["title"], description=s["description"], metadata=s["metadata"], **kw)
    if kind == "series":
        c = full(spec)
        kw = {}
        if c["parsers"]:
            kw["parsers"] = _parsers(pa, c["parsers"])
        return pa.SeriesSchema(_dtype_arg(c["dtype"]), checks=_checks(pa, c["checks"]), index=build_pandas_index(spec.get("index")),
                               nullable=c["nullable"], unique=c["unique"], report_duplicates=c["report_duplicates"],
                               coerce=c["coerce"], name=c["name"], default=c["default"],
                               drop_invalid_rows=c["drop_invalid_rows"], **kw)
    if kind == "column":
        return build_pandas_component(spec, "column")
    if kind == "index":
        return build_pandas_component(spec, "index")
    if kind == "multiindex":
        return build_pandas_index(dict(spec, kind="multi"))
    raise AssertionError(kind)


_PL_DT = None


def _pl_dtype(dt):
    import polars as pl

    return {None: None, "int64": pl.Int64, "float64": pl.Float64, "str": pl.Utf8, "bool": pl.Boolean,
            "datetime64[ns]": pl.Datetime("ns")}[dt]


def polars_expressible(spec):
    """Is this spec inside the vocabulary the polars backend supports?"""
    if spec.get("kind", "frame") not in ("frame", "column"):
        return False
    s = full(spec, FRAME_DEFAULTS) if spec.get("kind", "frame") == "frame" else {"cols": [spec], "index": None}
    if s.get("index") is not None:
        return False
    if spec.get("kind", "frame") == "frame":
        if s["report_duplicates"] != "all" or s["unique_column_names"]:
            return False
        if s["dtype"] not in (None, "int64", "float64", "str", "bool", "datetime64[ns]"):
            return False
    for c in s["cols"]:
        c = full(c)
        if c["dtype"] not in (None, "int64", "float64", "str", "bool", "datetime64[ns]"):
            return False
        if c["report_duplicates"] != "all" or c["parsers"]:
            return False
        for ch in c["checks"]:
            if ch["k"].startswith("custom") or (ch.get("kw") or {}).get("groupby") is not None:
                return False
    return True


def build_polars_component(c):
    import pandera as pa
    import pandera.polars as pp

    c = full(c)
    return pp.Column(_pl_dtype(c["dtype"]), checks=_checks(pa, c["checks"]), nullable=c["nullable"], unique=c["unique"],
                     coerce=c["coerce"], required=c["required"], name=c["name"], regex=c["regex"],
                     default=c["default"], drop_invalid_rows=c["drop_invalid_rows"],
                     title=c["title"], description=c["description"], metadata=c["metadata"])


def build_polars(spec):
    import warnings

    import pandera as pa
    import pandera.polars as pp

    kind = spec.get("kind", "frame")
    if kind == "column":
        return build_polars_component(spec)
    s = full(spec, FRAME_DEFAULTS)
    cols = {c["name"]: build_polars_component(c) for c in s["cols"]}
    with warnings.catch_warnings():
        warnings.simplefilter("ignore")
        return pp.DataFrameSchema(
            cols, checks=_checks(pa, s["checks"]), dtype=_pl_dtype(s["dtype"]), coerce=s["coerce"], strict=s["strict"],
            name=s["name"], ordered=s["ordered"], unique=s["unique"], add_missing_columns=s["add_missing_columns"],
            drop_invalid_rows=s["drop_invalid_rows"], title=s["title"], description=s["description"],
            metadata=s["metadata"], unique_column_names=s["unique_column_names"])


def strip_parsing(spec):
    """Same schema with every parsing option switched off (C03's strip(S))."""
    s = copy.deepcopy(spec)

    def strip_comp(c):
        c["coerce"] = False
        c["default"] = None
        c["parsers"] = []
        c["drop_invalid_rows"] = False

    kind = s.get("kind", "frame")
    if kind == "frame":
        for c in s.get("cols", []):
            strip_comp(c)
        s["coerce"] = False
        s["add_missing_columns"] = False
        if s.get("strict") == "filter":
            s["strict"] = False
        s["drop_invalid_rows"] = False
        s["parsers"] = []
    else:
        strip_comp(s)
    ix = s.get("index")
    if ix is not None:
        if ix.get("kind", "single") == "single":
            strip_comp(ix)
        else:
            ix["coerce"] = False
            for l in ix["levels"]:
                strip_comp(l)
    return s
