"""C07 — validation outcomes do not depend on thread interleaving.

Stateless model checking of the real implementation: 2..3 real threads validate under a
cooperative scheduler (mc/core/sched.py); scheduling points sit before every access to shared
mutable state (instrumented schema / component / check / config objects, and every line of the
functions that read or rebind module globals).  Iterative preemption bounding 0,1,2(,3); DFS with
prefix replay; a divergent replay or a deadlock is a hard error.

Oracle per schedule: every thread's outcome == its solo outcome; after join the configuration and
every schema fingerprint == before.
"""
from __future__ import annotations

import copy
import itertools
import json

from mc.core import sched as SC
from mc.ref import fingerprint as FP
from mc.spec import table as T

PROPERTY = "C07"
LEVEL = "model_checking"
ASSUMPTIONS = [
    "preemption only before accesses to instrumented shared objects and traced lines, not at every bytecode",
    "<= 3 threads, <= 3 preemptions; polars' own worker threads are outside the scheduler (no Python callbacks run on them in the harnesses)",
]

_W = {}


def init_worker():
    import pandas as pd
    import polars as pl
    import pandera as pa
    import pandera.polars as pp

    # warm every lazily registered backend / lazy import so that no execution hits the import lock
    pa.DataFrameSchema({"a": pa.Column(int, pa.Check.ge(0), coerce=True)}, index=pa.Index(int)).validate(pd.DataFrame({"a": [1]}))
    pa.SeriesSchema(int).validate(pd.Series([1]))
    pp.DataFrameSchema({"a": pp.Column(int, pa.Check.ge(0))}).validate(pl.DataFrame({"a": [1]}))
    pp.DataFrameSchema({"a": pp.Column(int, pa.Check.ge(0))}).validate(pl.DataFrame({"a": [1]}).lazy()).collect()

    class WarmM(pa.DataFrameModel):
        a: int = pa.Field(ge=0)

    WarmM.validate(pd.DataFrame({"a": [1]}))
    _W["traced"] = _traced_codes()
    _W["discovered"] = _discover_global_writers()
    _W["traced"].update(_W["discovered"]["codes"])


def _traced_codes():
    """code objects of the functions that touch module globals by name -> (pseudo location, kind)"""
    from pandera import config as cfg
    from pandera.api.dataframe import model as mdl
    from pandera.api.polars import utils as putils

    G = ("global", "pandera.config._CONTEXT_CONFIG")
    codes = {}
    for fn in (cfg.get_config_context, cfg.get_config_global, putils.get_validation_depth):
        codes[fn.__code__] = (G, "r")
    codes[cfg.reset_config_context.__code__] = (G, "w")
    codes[cfg.config_context.__wrapped__.__code__] = (G, "r")   # its writes go through the instrumented config object
    codes[mdl.DataFrameModel.to_schema.__func__.__code__] = (("global", "pandera.api.dataframe.model.MODEL_CACHE"), "w")
    return codes


def _global_snapshot():
    """(id, len) of every module-level and class-level value of the loaded pandera modules"""
    import sys
    import types

    def _len(v):
        try:
            return len(v)
        except Exception:  # noqa
            return None

    snap = {}
    for mn, m in list(sys.modules.items()):
        if not mn.startswith("pandera") or m is None:
            continue
        for name, val in list(vars(m).items()):
            if name.startswith("__") or isinstance(val, (types.ModuleType, types.FunctionType)):
                continue
            if isinstance(val, type):
                if (val.__module__ or "") == mn:
                    for a, v in list(vars(val).items()):
                        if a.startswith("__") or isinstance(v, (types.FunctionType, classmethod, staticmethod, property)):
                            continue
                        snap[(val.__module__ + "." + val.__qualname__, a)] = (id(v), _len(v))
                continue
            snap[(mn, name)] = (id(val), _len(val))
    return snap


def _discover_global_writers():
    """Own the nondeterminism we do not know about: after warm-up, run representative validations (alternating pandas / polars /
    model calls) and diff a snapshot of all module- and class-level state of pandera around each call.  Every location that a
    validation rebinds or resizes is shared mutable state; the functions whose code names it become traced (every line a scheduling
    point), so that a newly introduced cache / memo / scratch buffer at module or class level is preemptible like the known globals."""
    import sys
    import types

    import pandas as pd
    import polars as pl
    import pandera as pa
    import pandera.polars as pp

    ps = pa.DataFrameSchema({"a": pa.Column(int, pa.Check.ge(0), coerce=True)})
    pls = pp.DataFrameSchema({"a": pp.Column(int, pa.Check.ge(0))})

    class DiscM(pa.DataFrameModel):
        a: int = pa.Field(ge=0)

    def bad():
        try:
            ps.validate(pd.DataFrame({"a": [-1.0]}), lazy=True)
        except pa.errors.SchemaErrors:
            pass

    calls = [lambda: ps.validate(pd.DataFrame({"a": [1.0]})), lambda: pls.validate(pl.DataFrame({"a": [1]})), lambda: ps.validate(pd.DataFrame({"a": [1]})),
             lambda: pls.validate(pl.DataFrame({"a": [1]}).lazy()).collect(), bad, lambda: DiscM.validate(pd.DataFrame({"a": [1]})),
             lambda: pls.validate(pl.DataFrame({"a": [2]})), lambda: DiscM.validate(pd.DataFrame({"a": [2]}))]
    for c in calls:
        c()
    changed = set()
    for c in calls:
        s0 = _global_snapshot()
        c()
        s1 = _global_snapshot()
        changed |= {k for k in s1 if s0.get(k) != s1[k]}
    known = {("pandera.config", "_CONTEXT_CONFIG"), ("pandera.api.dataframe.model", "MODEL_CACHE")}
    new = sorted(changed - known)
    codes = {}
    if new:
        names = {n for _o, n in new}
        seen = set()

        def scan(co, owner):
            if co in seen:
                return
            seen.add(co)
            hit = names & set(co.co_names)
            if hit:
                nm = sorted(hit)[0]
                loc = next(o for o, n in new if n == nm)
                codes[co] = (("global", f"{loc}.{nm}"), "w")
            for k in co.co_consts:
                if isinstance(k, types.CodeType):
                    scan(k, owner)

        for mn, m in list(sys.modules.items()):
            if not mn.startswith("pandera") or m is None:
                continue
            for val in list(vars(m).values()):
                if isinstance(val, types.FunctionType) and (val.__module__ or "").startswith("pandera"):
                    scan(val.__code__, mn)
                elif isinstance(val, type) and (val.__module__ or "") == mn:
                    for v in list(vars(val).values()):
                        f = getattr(v, "__func__", v)
                        if isinstance(f, types.FunctionType):
                            scan(f.__code__, mn)
    return {"locations": [f"{o}.{n}" for o, n in new], "codes": codes, "functions": sorted({c.co_qualname for c in codes})}


def _cfg_label(obj, tid):
    """PanderaConfig objects: the one(s) reachable through the module globals are shared; copies a
    thread holds locally are private until they are published by reset_config_context."""
    from pandera import config as cfg

    if isinstance(obj, cfg.PanderaConfig):
        if obj is cfg._CONTEXT_CONFIG or obj is cfg.CONFIG:
            return "cfg.global"
        return f"cfg.local.t{tid}"
    return None


# ---------------------------------------------------------------------------------------------
def _walk_instrument(schema, label):
    """instrument a schema, its components and their checks"""
    seen = set()

    def rec(o, lab):
        if id(o) in seen:
            return
        seen.add(id(o))
        mod = type(o).__module__ or ""
        if mod.startswith("pandera") and hasattr(o, "__dict__") and "dtypes" not in mod and "engines" not in mod:
            SC.instrument(o, lab)
            for k, v in list(object.__getattribute__(o, "__dict__").items()):
                if k.startswith("__mc_"):
                    continue
                rec(v, f"{lab}.{k}")
        elif isinstance(o, dict):
            for k, v in o.items():
                rec(v, f"{lab}[{k}]")
        elif isinstance(o, (list, tuple)):
            for i, v in enumerate(o):
                rec(v, f"{lab}[{i}]")

    rec(schema, label)


def _instrument_config():
    from pandera import config as cfg

    cfg.reset_config_context()
    SC.instrument(cfg._CONTEXT_CONFIG, "cfg")
    # the global CONFIG object is the source of reset_config_context(None) copies
    SC.instrument(cfg.CONFIG, "cfg")


def _uninstrument_config():
    from pandera import config as cfg

    for o in (cfg.CONFIG, cfg._CONTEXT_CONFIG):
        orig = getattr(type(o), "__mc_original__", None)
        if orig is not None:
            o.__class__ = orig
        object.__getattribute__(o, "__dict__").pop("__mc_label__", None)
    cfg.reset_config_context()


def _outcome(kind, value):
    """canonical, comparable outcome of one validate call"""
    import pandas as pd
    import pandera as pa

    if kind == "ok":
        try:
            import polars as pl

            if isinstance(value, (pl.DataFrame, pl.LazyFrame)):
                return ["ok", T.snap_polars(value)]
        except ImportError:
            pass
        if isinstance(value, (pd.DataFrame, pd.Series)):
            return ["ok", T.snap_pandas(value)]
        return ["ok", repr(value)[:200]]
    e = value
    if isinstance(e, pa.errors.SchemaErrors):
        errs = sorted((x.reason_code.name if x.reason_code else "?", str(getattr(x.check, "name", x.check))[:60]) for x in e.schema_errors)
        return ["SchemaErrors", errs]
    if isinstance(e, pa.errors.SchemaError):
        return ["SchemaError", e.reason_code.name if e.reason_code else "?", str(getattr(e.check, "name", e.check))[:60]]
    return ["exc", type(e).__name__, str(e)[:120]]


# ---------------------------------------------------------------------------------------------
# harnesses: each returns (bodies, shared objects to fingerprint)
def _h_build(name):
    import pandas as pd
    import polars as pl
    import pandera as pa
    import pandera.polars as pp

    if name == "H0_pandas_distinct_schemas":
        s1 = pa.DataFrameSchema({"a": pa.Column(int, pa.Check.ge(0), coerce=True)})
        s2 = pa.DataFrameSchema({"a": pa.Column(int, pa.Check.ge(0), coerce=True)})
        d1 = pd.DataFrame({"a": [1.0, 2.0]})
        d2 = pd.DataFrame({"a": [1.0, -2.0]})
        return [lambda: s1.validate(d1, lazy=True), lambda: s2.validate(d2, lazy=True)], {"s1": s1, "s2": s2}
    if name == "H1_pandas_shared_coercing_schema":
        s = pa.DataFrameSchema({"a": pa.Column(int, pa.Check.ge(0), coerce=True), "b": pa.Column(float, coerce=True)})
        d1 = pd.DataFrame({"a": [1.0, 2.0], "b": ["1.5", "2.5"]})
        d2 = pd.DataFrame({"a": ["3", "4"], "b": [1, 2]})
        return [lambda: s.validate(d1), lambda: s.validate(d2)], {"s": s}
    if name == "H2_pandas_shared_schema_pass_fail_lazy":
        s = pa.DataFrameSchema({"a": pa.Column(int, [pa.Check.ge(0), pa.Check.le(10)]), "b": pa.Column(str, pa.Check.str_length(1, 3))})
        d1 = pd.DataFrame({"a": [1, 2], "b": ["x", "yy"]})
        d2 = pd.DataFrame({"a": [-1, 20], "b": ["x", "toolong"]})
        return [lambda: s.validate(d1, lazy=True), lambda: s.validate(d2, lazy=True)], {"s": s}
    if name == "H2b_pandas_shared_noncoercing_eager":
        s = pa.DataFrameSchema({"a": pa.Column(int, pa.Check.ge(0))}, index=pa.Index(int))
        d1 = pd.DataFrame({"a": [1, 2]})
        d2 = pd.DataFrame({"a": [1, -2]})
        return [lambda: s.validate(d1), lambda: s.validate(d2)], {"s": s}
    if name == "H3_polars_dataframe_vs_lazyframe":
        s = pp.DataFrameSchema({"a": pp.Column(int, pa.Check.ge(0))})
        d1 = pl.DataFrame({"a": [1, -2]})
        d2 = pl.DataFrame({"a": [1, -2]}).lazy()
        return [lambda: s.validate(d1), lambda: s.validate(d2).collect()], {"s": s}
    if name == "H3b_polars_two_dataframes":
        s = pp.DataFrameSchema({"a": pp.Column(int, pa.Check.ge(0))})
        d1 = pl.DataFrame({"a": [1, 2]})
        d2 = pl.DataFrame({"a": [1, -2]})
        return [lambda: s.validate(d1), lambda: s.validate(d2)], {"s": s}
    if name == "H4_polars_vs_pandas_in_user_context":
        from pandera.config import ValidationDepth, config_context

        sp = pp.DataFrameSchema({"a": pp.Column(int, pa.Check.ge(0))})
        spd = pa.DataFrameSchema({"a": pa.Column(int, pa.Check.ge(0))})
        d1 = pl.DataFrame({"a": [1, -2]})
        d2 = pd.DataFrame({"a": [1, -2]})

        def body_pd():
            with config_context(validation_depth=ValidationDepth.SCHEMA_ONLY):
                return spd.validate(d2)

        return [lambda: sp.validate(d1), body_pd], {"sp": sp, "spd": spd}
    if name == "H5_two_schemas_sharing_one_column":
        col = pa.Column(int, pa.Check.ge(0), coerce=True)
        s1 = pa.DataFrameSchema({"a": col})
        s2 = pa.DataFrameSchema({"a": col, "b": pa.Column(str)}, dtype=None)
        d1 = pd.DataFrame({"a": [1.0, 2.0]})
        d2 = pd.DataFrame({"a": ["1", "2"], "b": ["x", "y"]})
        return [lambda: s1.validate(d1), lambda: s2.validate(d2)], {"s1": s1, "s2": s2}
    if name == "H6_model_cold_cache":
        from pandera.api.dataframe import model as mdl

        class M(pa.DataFrameModel):
            a: int = pa.Field(ge=0)

        d1 = pd.DataFrame({"a": [1, 2]})
        d2 = pd.DataFrame({"a": [1, -2]})
        return [lambda: M.validate(d1), lambda: M.validate(d2)], {}
    if name == "H7_three_threads":
        s = pa.DataFrameSchema({"a": pa.Column(int, pa.Check.ge(0), coerce=True)})
        sp = pp.DataFrameSchema({"a": pp.Column(int, pa.Check.ge(0))})
        d1 = pd.DataFrame({"a": [1.0, 2.0]})
        d2 = pd.DataFrame({"a": ["1", "-2"]})
        d3 = pl.DataFrame({"a": [1, -2]})
        return [lambda: s.validate(d1), lambda: s.validate(d2), lambda: sp.validate(d3)], {"s": s, "sp": sp}
    if name == "H8_shared_regex_schema_one_failing":
        s = pa.DataFrameSchema({"a.*": pa.Column(int, pa.Check.ge(0), regex=True)})
        d1 = pd.DataFrame({"a1": [1, 2], "a2": [3, 4]})
        d2 = pd.DataFrame({"a1": [1, 2], "a2": [3, -4]})
        return [lambda: s.validate(d1), lambda: s.validate(d2)], {"s": s}
    if name == "H9_frame_dtype_override_shared":
        s = pa.DataFrameSchema({"a": pa.Column(checks=pa.Check.ge(0)), "b": pa.Column()}, dtype=int, coerce=True)
        d1 = pd.DataFrame({"a": [1.0, 2.0], "b": [1.0, 2.0]})
        d2 = pd.DataFrame({"a": ["1", "2"], "b": ["3", "4"]})
        return [lambda: s.validate(d1), lambda: s.validate(d2)], {"s": s}
    if name == "H10_polars_shared_coercing_schema":
        # two threads, one polars schema whose columns coerce: a component attribute overridden for the duration of one
        # thread's validation would be seen by the other thread's coercion phase
        s = pp.DataFrameSchema({"a": pp.Column(int, pa.Check.ge(0), coerce=True), "b": pp.Column(float, coerce=True)})
        d1 = pl.DataFrame({"a": ["1", "2"], "b": ["1.5", "2.5"]})
        d2 = pl.DataFrame({"a": [3.0, 4.0], "b": [1, 2]})
        return [lambda: s.validate(d1), lambda: s.validate(d2)], {"s": s}
    if name == "H11_polars_frame_dtype_shared":
        s = pp.DataFrameSchema({"a": pp.Column(checks=pa.Check.ge(0), coerce=True), "b": pp.Column(coerce=True)}, dtype=int)
        d1 = pl.DataFrame({"a": ["1", "2"], "b": ["3", "4"]})
        d2 = pl.DataFrame({"a": [1.0, 2.0], "b": [3.0, 4.0]})
        return [lambda: s.validate(d1), lambda: s.validate(d2)], {"s": s}
    if name == "H12_pandas_vs_polars_unrelated":
        # two unrelated schemas, one per backend, both with checks: whatever the two calls share is process-global
        spd = pa.DataFrameSchema({"a": pa.Column(int, [pa.Check.ge(0), pa.Check.le(10)])})
        spl = pp.DataFrameSchema({"a": pp.Column(int, [pa.Check.ge(0), pa.Check.le(10)])})
        d1 = pd.DataFrame({"a": [1, 20]})
        d2 = pl.DataFrame({"a": [1, 2]})
        return [lambda: spd.validate(d1, lazy=True), lambda: spl.validate(d2)], {"spd": spd, "spl": spl}
    if name == "H13_shared_regex_schema_different_matches":
        # one regex column, two frames in which the pattern matches DIFFERENT column sets (and only one of them is valid): whatever
        # the expansion of the pattern is stored in must belong to the call, not to the shared Column
        s = pa.DataFrameSchema({"a.*": pa.Column(int, pa.Check.ge(0), regex=True), "b": pa.Column(str, required=False)})
        d1 = pd.DataFrame({"a1": [1, 2], "a2": [3, -4], "a3": [5, 6]})
        d2 = pd.DataFrame({"a1": [1, 2], "b": ["x", "y"]})
        return [lambda: s.validate(d1, lazy=True), lambda: s.validate(d2, lazy=True)], {"s": s}
    raise AssertionError(name)


HARNESSES = ["H0_pandas_distinct_schemas", "H1_pandas_shared_coercing_schema", "H2_pandas_shared_schema_pass_fail_lazy",
             "H2b_pandas_shared_noncoercing_eager", "H3_polars_dataframe_vs_lazyframe", "H3b_polars_two_dataframes",
             "H4_polars_vs_pandas_in_user_context", "H5_two_schemas_sharing_one_column", "H6_model_cold_cache",
             "H7_three_threads", "H8_shared_regex_schema_one_failing", "H9_frame_dtype_override_shared",
             "H10_polars_shared_coercing_schema", "H11_polars_frame_dtype_shared", "H12_pandas_vs_polars_unrelated",
             "H13_shared_regex_schema_different_matches"]


def _prepare(name):
    bodies, shared = _h_build(name)
    for lab, s in shared.items():
        _walk_instrument(s, lab)
    _instrument_config()
    return bodies, shared


def _execute(name, script, RW, record=False):
    """one controlled execution on fresh objects -> (outcomes, points, post-state problems, sched)"""
    from pandera.api.dataframe import model as mdl

    bodies, shared = _prepare(name)
    fp0 = {k: FP.fingerprint(v) for k, v in shared.items()}
    cfg0 = FP.config_state()
    s = SC.Scheduler(bodies, script=script, RW=RW, traced_codes=_W["traced"], record_access=record)
    s.label_fn = _cfg_label
    try:
        res = s.run(timeout=60)
    finally:
        cfg1 = FP.config_state()
        post = []
        for k, v in shared.items():
            f1 = FP.fingerprint(v)
            if f1 != fp0[k]:
                post.append(("schema", k, FP.diff(fp0[k], f1)[:3]))
        if cfg1 != cfg0:
            post.append(("config", cfg0["context"], cfg1["context"]))
        _uninstrument_config()
    outs = [_outcome("ok", r[1]) if r[0] == "ok" else _outcome("exc", r[1]) for r in res]
    return outs, s.points, post, s


def _solo(name, nthreads):
    """outcome of each body when run alone (same instrumentation, no other thread)"""
    outs = []
    RW = {}
    post_all = []
    for i in range(nthreads):
        bodies, shared = _prepare(name)
        fp0 = {k: FP.fingerprint(v) for k, v in shared.items()}
        cfg0 = FP.config_state()
        try:
            s = SC.Scheduler([bodies[i]], RW=RW, tids=[i], traced_codes=_W["traced"])
            s.label_fn = lambda o, t, i=i: _cfg_label(o, i)
            r = s.run(timeout=60)[0]
        finally:
            cfg1 = FP.config_state()
            for k, v in shared.items():
                f1 = FP.fingerprint(v)
                if f1 != fp0[k]:
                    post_all.append((i, "schema", k, FP.diff(fp0[k], f1)[:3]))
            if cfg1 != cfg0:
                post_all.append((i, "config", cfg0["context"], cfg1["context"]))
            _uninstrument_config()
        outs.append(_outcome("ok", r[1]) if r[0] == "ok" else _outcome("exc", r[1]))
    return outs, RW, post_all


def _explore(name, bound, max_exec, shard=(0, 1)):
    n = len(_h_build(name)[0])
    # discovery: each thread alone; its read/write sets seed the conflict relation (grown to a fixpoint below)
    solo, RW, solo_post = _solo(name, n)
    viol = {}
    for item in solo_post:
        viol.setdefault(("solo.state_after", f"{name}:t{item[0]}:{item[1]}:{item[2]}"), f"a single validate call run alone left state behind: {item}")
    executions = 0
    restarts = 0
    distinct_outcomes = set()
    capped = False
    while True:
        stack = [[]]
        grown = False
        seen_prefix = set()
        while stack:
            prefix = stack.pop()
            outs, pts, post, s = _execute(name, prefix, RW)
            executions += 1
            if s.rw_grew:
                # a thread touched a location it never touched before: the conflict relation changed,
                # earlier executions may have skipped points -> restart with the larger relation
                grown = True
                break
            distinct_outcomes.add(json.dumps([outs, post], default=str))
            for i, (o, so) in enumerate(zip(outs, solo)):
                if o != so:
                    key = f"{name}:t{i}:{_short(so)}->{_short(o)}"
                    viol.setdefault(("outcome_equals_solo", key), f"schedule={[p['chosen'] for p in pts]} solo={so} got={o}")
            for pitem in post:
                if pitem[0] == "schema":
                    key = f"{name}:schema:{pitem[1]}:{'|'.join(d.split(':')[0] for d in pitem[2])}"
                    viol.setdefault(("state_after.schema", key), f"schedule={[p['chosen'] for p in pts]} diff={pitem[2]}")
                else:
                    key = f"{name}:config:{pitem[1]}->{pitem[2]}"
                    viol.setdefault(("state_after.config", key), f"schedule={[p['chosen'] for p in pts]}")
            if executions >= max_exec:
                capped = True
                break
            for i in range(len(prefix), len(pts)):
                if not prefix and i % shard[1] != shard[0]:
                    continue  # sub-trees below the root are partitioned over shards by first deviation
                p = pts[i]
                cost = SC.preemptions(pts, i)
                for alt in p["enabled"]:
                    if alt == p["chosen"]:
                        continue
                    c = cost + (1 if (p["running"] is not None and p["running"] in p["enabled"] and alt != p["running"]) else 0)
                    if c > bound:
                        continue
                    stack.append([q["chosen"] for q in pts[:i]] + [alt])
        if capped or not grown:
            break
        restarts += 1
        if restarts > 10:
            raise RuntimeError("written-set did not reach a fixpoint")
    W = set().union(*[v["w"] for v in RW.values()]) if RW else set()
    return {"viol": viol, "executions": executions, "W": len(W), "restarts": restarts, "capped": capped,
            "distinct_outcomes": len(distinct_outcomes), "points_last": len(pts), "solo": solo}


def _short(o):
    if o[0] == "ok":
        return "ok"
    if o[0] == "SchemaErrors":
        return "SchemaErrors[" + ",".join(f"{a}:{b}" for a, b in o[1]) + "]"
    return ":".join(map(str, o[:3]))[:120]


# ---------------------------------------------------------------------------------------------
def plan(tier, seed):
    bound2, bound3 = (1, 1) if tier == "quick" else (2, 2)
    cap = 1500 if tier == "quick" else 12000
    nsh = 1 if tier == "quick" else 16
    cases = []
    for h in HARNESSES:
        b = bound3 if h == "H7_three_threads" else bound2
        for sh in range(nsh):
            cases.append({"harness": h, "bound": b, "max_exec": cap, "shard": [sh, nsh]})
    if tier == "quick":
        # the harnesses that are race-free on the current tree are cheap: explore them one bound deeper
        for h in ("H0_pandas_distinct_schemas", "H2b_pandas_shared_noncoercing_eager", "H5_two_schemas_sharing_one_column",
                  "H8_shared_regex_schema_one_failing", "H13_shared_regex_schema_different_matches"):
            for sh in range(4):
                cases.append({"harness": h, "bound": 2, "max_exec": cap, "shard": [sh, 4]})
    return {"cases": cases, "exhaustive": True,
            "bounds": {"preemption_bound_2_threads": bound2, "preemption_bound_3_threads": bound3,
                       "max_executions_per_shard": cap, "harnesses": HARNESSES},
            "rule": "one case = one shard of one harness; an execution = one complete schedule of its threads under the cooperative "
                    "scheduler; all schedules with <= bound preemptions at offered points are enumerated by DFS with prefix replay "
                    "(sub-trees partitioned over shards by first deviation); states = executions, transitions = scheduling points "
                    "taken; counters.capped_shards > 0 means a shard stopped at the execution cap (then not exhaustive); "
                    "non-trivial = more than one distinct schedule explored"}


def run_case(case):
    r = _explore(case["harness"], case["bound"], case["max_exec"], tuple(case.get("shard", (0, 1))))
    viol = [{"clause": c, "key": k, "detail": d[:1500]} for (c, k), d in r["viol"].items()]
    return {"viol": viol, "states": r["executions"], "transitions": r["executions"] * max(r["points_last"], 1), "execs": r["executions"],
            "nontrivial": r["executions"] > 1, "nontrivial_n": r["executions"],
            "outcome": f"{case['harness']}:outcomes={r['distinct_outcomes']}",
            "counters": {"executions": r["executions"], "W_locations": r["W"], "restarts": r["restarts"],
                         "discovered_global_locations": len(_W.get("discovered", {}).get("locations", [])),
                         "distinct_outcomes": r["distinct_outcomes"], "capped_shards": 1 if r["capped"] else 0}}
