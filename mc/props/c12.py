"""C12 — schema serialisation round-trips: YAML, JSON and generated script.

Space: schema specs from the serialisable vocabulary only (the attribute list in the property):
<= k feature edits from 3 bases (no index / Index / MultiIndex); values chosen to stress the
emitters (strict='filter', titles / descriptions with spaces, quotes and colons, YAML-keyword
names, Index unique, two checks of one kind, check options, frame-level checks and dtype,
unique as str vs list, regex names).
Oracle: projection(S') == projection(S) for S' in {from_yaml(to_yaml(S)), from_json(to_json(S)),
exec(to_script(S))} where projection lists exactly the serialisable attributes; to_yaml is a
fixpoint on the re-read schema; S and S' agree on a set of probe frames.
"""
from __future__ import annotations

import copy
import itertools
import json
import warnings

from mc.spec import edits as E
from mc.spec import schema as S
from mc.spec import table as T

PROPERTY = "C12"
LEVEL = "model_checking"
ASSUMPTIONS = ["only attributes named in the property are compared (default / metadata / drop_invalid_rows / parsers are outside)"]

BASES = {
    "noindex": S.frame(cols=[S.comp(name="a", dtype="int64"), S.comp(name="b", dtype="str"), S.comp(name="c", dtype="float64")]),
    "index": S.frame(cols=[S.comp(name="a", dtype="int64"), S.comp(name="b", dtype="str")],
                     index=dict(S.comp(name="idx", dtype="int64"), kind="single")),
    "multi": S.frame(cols=[S.comp(name="a", dtype="int64")],
                     index={"kind": "multi", "levels": [S.comp(name="k1", dtype="str"), S.comp(name="k2", dtype="int64")],
                            "strict": False, "ordered": True, "unique": None, "coerce": False}),
    "datetime": S.frame(cols=[S.comp(name="t", dtype="datetime64[ns]"), S.comp(name="a", dtype="int64")]),
    "timedelta": S.frame(cols=[S.comp(name="d", dtype="timedelta64[ns]"), S.comp(name="a", dtype="int64")],
                         index=dict(S.comp(name="dt", dtype="timedelta64[ns]"), kind="single")),
}

NASTY = "it's: a \"title\" # 100%"

CHECKS = {
    "int": [{"k": "ge", "a": [1]}, {"k": "gt", "a": [0]}, {"k": "le", "a": [9]}, {"k": "lt", "a": [10]}, {"k": "eq", "a": [2]},
            {"k": "ne", "a": [7]}, {"k": "in_range", "a": [1, 3]}, {"k": "in_range", "a": [0, 4, False, False]},
            {"k": "isin", "a": [[1, 2, 3]]}, {"k": "notin", "a": [[7, 8]]},
            {"k": "ge", "a": [1], "kw": {"ignore_na": False}}, {"k": "le", "a": [9], "kw": {"raise_warning": True}},
            {"k": "isin", "a": [[1, 2, 3]], "kw": {"n_failure_cases": 2}}],
    "float": [{"k": "ge", "a": [1.5]}, {"k": "in_range", "a": [0.5, 3.5]}, {"k": "lt", "a": [9.25]}],
    "str": [{"k": "str_matches", "a": ["^[a-z]+$"]}, {"k": "str_contains", "a": ["x|y"]}, {"k": "str_startswith", "a": ["x"]},
            {"k": "str_endswith", "a": ["z"]}, {"k": "str_length", "a": [1, 3]}, {"k": "str_length", "a": [1, None]},
            {"k": "isin", "a": [["x", "yy", "z"]]}, {"k": "notin", "a": [["q'q", "r\"r"]]}, {"k": "eq", "a": ["it's"]}],
    "datetime": [{"k": "ge", "a": ["2020-01-01"]}, {"k": "le", "a": ["2021-12-31T12:00:00"]}],
    # durations are written as integer nanoseconds: the zero duration is the value a falsy test would lose
    "timedelta": [{"k": "ge", "a": ["0s"]}, {"k": "le", "a": ["5s"]}, {"k": "in_range", "a": ["0s", "5s"]}, {"k": "eq", "a": ["0s"]},
                  {"k": "gt", "a": ["-1s"]}],
}
KIND = {"int64": "int", "float64": "float", "str": "str", "datetime64[ns]": "datetime", "timedelta64[ns]": "timedelta"}


def schema_edits(spec):
    eds = []
    for tid, c in E._targets(spec):
        eds += [["set", tid, "nullable", True], ["set", tid, "unique", True], ["set", tid, "coerce", True],
                ["set", tid, "title", "plain title"], ["set", tid, "title", NASTY], ["set", tid, "description", NASTY]]
        for chk in CHECKS[KIND[c["dtype"]]]:
            eds.append(["addcheck", tid, chk])
        if tid.startswith("col:"):
            eds += [["set", tid, "required", False], ["regex", tid, "^" + c["name"] + "_\\d+$"]]
            for newname in ("yes", "null", "1", "it's"):
                eds.append(["rename", tid, newname])
    # one Check *instance* attached to two components (aliasing between components is invisible in a spec-per-component build)
    tids = [t for t, _ in E._targets(spec)]
    shared = {"k": "ne", "a": [-1], "kw": {"raise_warning": True, "ignore_na": False}}
    for pair in (("level:k1", "level:k2"), ("col:a", "level:k2"), ("col:a", "index"), ("col:a", "col:c")):
        dts = dict(E._targets(spec))
        if all(t in tids for t in pair) and not any(dts[t]["dtype"] in ("timedelta64[ns]", "datetime64[ns]") for t in pair):
            eds.append(["sharecheck", list(pair), shared])   # (an int argument on a temporal component is not a serialisable check)
    eds += [["frame", "strict", True], ["frame", "strict", "filter"], ["frame", "ordered", True], ["frame", "coerce", True],
            ["frame", "name", "my schema"], ["frame", "name", NASTY], ["frame", "title", NASTY], ["frame", "description", NASTY],
            ["frame", "unique", "a"], ["frame", "unique", ["a"]], ["frame", "report_duplicates", "exclude_first"],
            ["frame", "unique_column_names", True], ["frame", "add_missing_columns", True],
            ["frame", "dtype", "int64"], ["frame", "checks", [{"k": "ne", "a": [-1]}]],
            ["frame", "checks", [{"k": "in_range", "a": [-5, 50], "kw": {"ignore_na": False}}]]]
    return eds


def apply_edit(spec, e):
    if e[0] == "sharecheck":
        s = copy.deepcopy(spec)
        for tid in e[1]:
            try:
                t = E._get_target(s, tid)
            except KeyError:
                return None
            t["checks"] = list(t["checks"]) + [dict(copy.deepcopy(e[2]), share="s1")]
        return s
    if e[0] == "rename":
        s = copy.deepcopy(spec)
        try:
            t = E._get_target(s, e[1])
        except KeyError:
            return None
        old = t["name"]
        if any(c["name"] == e[2] for c in s["cols"]):
            return None
        t["name"] = e[2]
        if isinstance(s.get("unique"), list):
            s["unique"] = [e[2] if u == old else u for u in s["unique"]]
        elif s.get("unique") == old:
            s["unique"] = e[2]
        return s
    try:
        return E.apply_schema_edit(spec, e)
    except KeyError:
        return None


def _datetime_fix(spec):
    """check arguments for datetime columns are Timestamps"""
    return spec


# ---------------------------------------------------------------------------------------------
def _build(spec):
    import pandas as pd
    import pandera as pa

    spec = copy.deepcopy(spec)
    for tid, c in E._targets(spec):
        if c["dtype"] == "datetime64[ns]":
            for ch in c["checks"]:
                ch["a"] = [pd.Timestamp(x) for x in ch["a"]]
        if c["dtype"] == "timedelta64[ns]":
            for ch in c["checks"]:
                ch["a"] = [pd.Timedelta(x) for x in ch["a"]]
    with warnings.catch_warnings():
        warnings.simplefilter("ignore")
        return S.build_pandas(spec)


def _proj_check(ch):
    if not hasattr(ch, "statistics"):
        return {"name": "<not a Check: %s>" % type(ch).__name__}
    st = ch.statistics
    return {"name": ch.name, "stats": json.dumps({k: T.norm(v) if not isinstance(v, (list, tuple, set, frozenset)) else sorted(map(repr, v))
                                                  for k, v in sorted((st or {}).items()) if k != "options"}, sort_keys=True, default=str),
            "ignore_na": ch.ignore_na, "raise_warning": ch.raise_warning, "n_failure_cases": ch.n_failure_cases}


def _proj_comp(c, is_col):
    d = {"dtype": None if c.dtype is None else str(c.dtype), "nullable": c.nullable, "unique": c.unique, "coerce": c.coerce,
         "name": c.name, "title": c.title, "description": c.description, "checks": [_proj_check(x) for x in c.checks]}
    if is_col:
        d["required"] = c.required
        d["regex"] = c.regex
    return d


def projection(schema):
    import pandera as pa

    idx = schema.index
    if idx is None:
        pidx = None
    elif isinstance(idx, pa.MultiIndex):
        pidx = [_proj_comp(i, False) for i in idx.indexes]
    else:
        pidx = [_proj_comp(idx, False)]
    u = schema.unique
    return {"columns": [[k, _proj_comp(v, True)] for k, v in schema.columns.items()], "index": pidx,
            "dtype": None if schema.dtype is None else str(schema.dtype), "coerce": schema.coerce, "strict": schema.strict,
            "ordered": schema.ordered, "unique": [u] if isinstance(u, str) else (list(u) if u else None), "name": schema.name,
            "title": schema.title, "description": schema.description, "checks": [_proj_check(x) for x in schema.checks]}


def _check_lists(p):
    for _n, c in p["columns"]:
        yield c["checks"]
    for c in p["index"] or []:
        yield c["checks"]
    yield p["checks"]


def _has_same_kind_checks(p):
    return any(len({c["name"] for c in lst}) != len(lst) for lst in _check_lists(p))


def _only_same_kind_lost(p0, p2):
    """every check list of the re-read schema equals the original with earlier same-named checks removed"""
    for l0, l2 in zip(_check_lists(p0), _check_lists(p2)):
        last = {}
        for c in l0:
            last[c["name"]] = c
        if sorted(map(json.dumps, last.values())) != sorted(map(json.dumps, l2)):
            return False
    return True


def _diff_keys(a, b):
    """which serialisable attributes differ (attribute names only, for a stable key)"""
    out = set()
    for k in a:
        if k in ("columns",):
            na, nb = [x[0] for x in a[k]], [x[0] for x in b[k]]
            if na != nb:
                out.add("columns.names")
                continue
            for (n1, c1), (n2, c2) in zip(a[k], b[k]):
                for f in c1:
                    if c1[f] != c2.get(f):
                        out.add(f"column.{f}")
        elif k == "index":
            if (a[k] is None) != (b[k] is None) or (a[k] is not None and len(a[k]) != len(b[k])):
                out.add("index.shape")
                continue
            for c1, c2 in zip(a[k] or [], b[k] or []):
                for f in c1:
                    if c1[f] != c2.get(f):
                        out.add(f"index.{f}")
        elif a[k] != b.get(k):
            out.add(f"frame.{k}")
    return sorted(out)


def _probe_tables(spec):
    names = [c["name"] for c in spec["cols"]]
    base = {"cols": [], "index": None}
    for c in spec["cols"]:
        vals = {"int64": [1, 2, 3], "str": ["x", "yy", "z"], "float64": [1.5, 2.5, 3.5],
                "datetime64[ns]": ["2020-06-01", "2020-07-01", "2021-01-01"], "timedelta64[ns]": ["0s", "1s", "6s"]}[c["dtype"]]
        nm = c["name"] if not c.get("regex") else c["name"].strip("^$").replace("\\d+", "1")
        base["cols"].append({"name": nm, "dtype": {"str": "object"}.get(c["dtype"], c["dtype"]), "values": list(vals)})
    ix = spec.get("index")
    if ix is not None:
        if ix.get("kind", "single") == "single":
            base["index"] = {"kind": "single", "values": [1, 2, 3], "dtype": "int64", "name": ix.get("name")} if ix["dtype"] != "timedelta64[ns]" else \
                {"kind": "single", "values": ["0s", "2s", "4s"], "dtype": "timedelta64[ns]", "name": ix.get("name")}
        else:
            base["index"] = {"kind": "multi", "levels": [{"values": ["p", "q", "r"], "dtype": "object", "name": "k1"},
                                                          {"values": [1, 2, 3], "dtype": "int64", "name": "k2"}]}
    probes = [base]
    kinds = set()
    from mc.props.espace import edit_kind

    for e in E.data_edits(base, rich=False):
        if e[0] in ("cell", "duprow", "dropcol", "addcol", "swapcols", "ixcell", "mixcell"):
            k = edit_kind(e) + (":" + str(e[1]) if e[0] == "cell" else "")   # one probe per edit kind (cells: per column)
            if k in kinds:
                continue
            t = E.apply_data_edit(base, e)
            if t is not None:
                kinds.add(k)
                probes.append(t)
    return probes[:9]


def _verdict(schema, table):
    import pandera as pa

    try:
        schema.validate(T.to_pandas(table), lazy=False)
        return "ACCEPT"
    except (pa.errors.SchemaErrors, pa.errors.SchemaError):
        return "REJECT"
    except Exception as e:  # noqa
        return "EXC:" + type(e).__name__


def _roundtrip(schema, fmt):
    from pandera.io import pandas_io as io

    if fmt == "yaml":
        text = schema.to_yaml()
        return text, io.from_yaml(text)
    if fmt == "json":
        text = schema.to_json()
        return text, io.from_json(text)
    text = io.to_script(schema)
    ns = {}
    exec(compile(text, "<to_script>", "exec"), ns)  # noqa: S102
    return text, ns["schema"]


def _check_schema(spec):
    out = []
    schema = _build(spec)
    p0 = projection(schema)
    probes = None
    labels = []
    for fmt in ("yaml", "json", "script"):
        try:
            with warnings.catch_warnings():
                warnings.simplefilter("ignore")
                text, s2 = _roundtrip(_build(spec), fmt)
        except Exception as e:  # noqa
            out.append((f"{fmt}.roundtrip_runs", f"{type(e).__name__}", f"{str(e)[:300]}"))
            labels.append(fmt + ":exc")
            continue
        p2 = projection(s2)
        dk = _diff_keys(p0, p2)
        if dk and set(dk) <= {"column.checks", "index.checks", "frame.checks"} and _has_same_kind_checks(p0) and _only_same_kind_lost(p0, p2):
            # structural finding: the intermediate statistics dict is keyed by check name, so a second
            # check of the same kind overwrites the first one in every format
            out.append((f"{fmt}.attributes_preserved", "@same_kind_checks_collapse", f"orig={json.dumps(p0, default=str)[:400]}"))
            labels.append(fmt + ":diff")
            continue
        if dk:
            out.append((f"{fmt}.attributes_preserved", "+".join(dk), f"orig={json.dumps(p0, default=str)[:500]} back={json.dumps(p2, default=str)[:500]}"))
            labels.append(fmt + ":diff")
            continue
        labels.append(fmt + ":ok")
        if fmt in ("yaml", "json"):
            try:
                with warnings.catch_warnings():
                    warnings.simplefilter("ignore")
                    text2 = s2.to_yaml() if fmt == "yaml" else s2.to_json()
                if text2 != text:
                    out.append((f"{fmt}.text_fixpoint", "differs", f"{text[:300]} || {text2[:300]}"))
            except Exception as e:  # noqa
                out.append((f"{fmt}.text_fixpoint", type(e).__name__, str(e)[:200]))
        if probes is None:
            probes = _probe_tables(spec)
        for t in probes:
            v1, v2 = _verdict(schema, t), _verdict(s2, t)
            if v1 != v2:
                out.append((f"{fmt}.verdicts_agree", f"{v1}->{v2}", f"table={t}"))
                break
    return out, "/".join(labels)


def _tgt(e):
    return e[1] if e[0] in ("set", "addcheck", "regex", "rename") else "frame"


def _related(comb, mode):
    """quick: pairs must collide on one component or both be frame-level (or frame-level x first component);
    thorough: any pair, triples must collide the same way"""
    if len(comb) <= 1:
        return True
    tg = [_tgt(e) for e in comb]
    comps = {t for t in tg if t != "frame"}
    if mode == "all_pairs" and len(comb) == 2:
        return True
    return len(comps) <= 1


def _space(base, k, shard, mode="related"):
    spec0 = BASES[base]
    eds = schema_edits(spec0)
    seen = set()
    idx = -1
    for i in range(k + 1):
        for comb in itertools.combinations(eds, i):
            if not _related(comb, mode):
                continue
            idx += 1
            if idx % shard[1] != shard[0]:
                continue
            spec = spec0
            for e in comb:
                spec = apply_edit(spec, e)
                if spec is None:
                    break
            if spec is None:
                continue
            key = E.canon(spec)
            if key in seen:
                continue
            seen.add(key)
            yield spec, list(comb)


def _kinds(comb):
    ks = []
    for e in comb:
        if e[0] == "set":
            v = e[3]
            ks.append(f"{e[1].split(':')[0]}.{e[2]}" + ("=nasty" if v == NASTY else ""))
        elif e[0] == "addcheck":
            kw = e[2].get("kw")
            ks.append(f"{e[1].split(':')[0]}.check:{e[2]['k']}" + (":" + ",".join(sorted(kw)) if kw else ""))
        elif e[0] == "frame":
            v = e[2]
            ks.append(f"frame.{e[1]}" + (f"={v}" if isinstance(v, (bool, str)) and v != NASTY else ("=nasty" if v == NASTY else "")))
        elif e[0] == "rename":
            ks.append(f"rename:{e[2]}")
        else:
            ks.append(e[0])
    return sorted(ks)


def _minimise(base, comb, clause, key):
    comb = list(comb)
    changed = True
    while changed:
        changed = False
        for i in range(len(comb)):
            cand = comb[:i] + comb[i + 1:]
            spec = BASES[base]
            for e in cand:
                spec = apply_edit(spec, e)
                if spec is None:
                    break
            if spec is None:
                continue
            try:
                res, _ = _check_schema(spec)
            except Exception:  # noqa
                continue
            if any(c == clause and k == key for c, k, _ in res):
                comb = cand
                changed = True
                break
    return comb


def plan(tier, seed):
    k = 2 if tier == "quick" else 3
    cases = []
    for b in BASES:
        nsh = 24 if tier == "quick" else 128
        for sh in range(nsh):
            cases.append({"base": b, "k": k, "shard": [sh, nsh], "mode": "related" if tier == "quick" else "all_pairs"})
    return {"cases": cases, "exhaustive": True,
            "bounds": {"feature_edits": k, "bases": list(BASES),
                       "combination_rule": "quick: combinations of >= 2 edits must hit one component (frame-level edits combine with everything); "
                                           "thorough: all pairs, triples under the same rule"},
            "rule": "state = distinct schema spec; each is round-tripped through YAML, JSON and the generated script; "
                    "non-trivial = at least one feature edit applied (all but the 4 base schemas)"}


def run_case(case):
    viol, seen, n = [], set(), 0
    outcomes = {}
    if "concrete" in case:
        items = [(case["concrete"]["schema"], case["concrete"]["edits"])]
        base = case["concrete"]["base"]
    else:
        items = _space(case["base"], case["k"], tuple(case["shard"]), case.get("mode", "related"))
        base = case["base"]
    for spec, comb in items:
        n += 1
        res, label = _check_schema(spec)
        outcomes[label] = outcomes.get(label, 0) + 1
        for clause, key, detail in res:
            if key.startswith("@"):
                k2 = key[1:]
            else:
                m = _minimise(base, comb, clause, key)   # also for replays: the signature is that of the minimised case
                k2 = key + "|" + "+".join(_kinds(m))
            if (clause, k2) in seen:
                continue
            seen.add((clause, k2))
            viol.append({"clause": clause, "key": k2, "detail": detail[:1200],
                         "case": {"concrete": {"base": base, "schema": spec, "edits": comb}}})
    n = max(n, 1)
    return {"viol": viol, "states": n, "transitions": n * 3, "execs": n * 3, "nontrivial": True, "nontrivial_n": n,
            "outcome": max(outcomes.items(), key=lambda kv: kv[1])[0] if outcomes else "empty",
            "counters": {"o:" + k: v for k, v in outcomes.items()}}
