"""C17 — decorators gate the call on validation and are otherwise transparent.

Exhaustive product: signature shape x designation (obj_getter None / int / str; for outputs None /
int / str / callable) x call shape (positional / keyword / mixed / default-not-passed) x
validation options (none, head, tail, lazy) x argument frame (conforming, coercible, invalid in
row 0, invalid only in the last row) x decorator (check_input, check_output, check_io,
check_types).  Functions are generated from source templates; their bodies record whether they
ran and with what.
Oracle: a reference wrapper written from the documentation (bind the call with inspect.signature,
validate the designated input with the given options, call, validate the designated output):
   body executed <=> designated inputs accepted;  body receives the parsed object;
   result / exception class equal to the reference;  equivalent designations behave identically.
"""
from __future__ import annotations

import asyncio
import inspect
import itertools
import warnings

PROPERTY = "C17"
LEVEL = "model_checking"
ASSUMPTIONS = ["the reference wrapper binds arguments with inspect.signature, i.e. exactly like Python would"]

SHAPES = {
    "f(df)": ("def f(df):\n    return body(df=df)", ["df"], None),
    "f(x, df)": ("def f(x, df):\n    return body(x=x, df=df)", ["x", "df"], None),
    "f(df, y=5)": ("def f(df, y=5):\n    return body(df=df, y=y)", ["df", "y"], None),
    "f(df, *a)": ("def f(df, *a):\n    return body(df=df, a=a)", ["df"], "varargs"),
    "f(df, **k)": ("def f(df, **k):\n    return body(df=df, k=k)", ["df"], "varkw"),
    "f(x, df=DEFAULT)": ("def f(x, df=DEFAULT):\n    return body(x=x, df=df)", ["x", "df"], "default_df"),
    "method(self, df)": ("class K:\n    def f(self, df):\n        return body(df=df)\nf = K().f", ["df"], "method"),
    "method(self, x, df)": ("class K:\n    def f(self, x, df):\n        return body(x=x, df=df)\nf = K().f", ["x", "df"], "method"),
    "classmethod(cls, df)": ("class K:\n    @classmethod\n    def f(cls, df):\n        return body(df=df)\nf = K.f", ["df"], "classmethod"),
    "staticmethod(df)": ("class K:\n    @staticmethod\n    def f(df):\n        return body(df=df)\nf = K.f", ["df"], "static"),
    "async f(df)": ("async def f(df):\n    return body(df=df)", ["df"], "async"),
    "wrapped f(df)": ("import functools\ndef deco(g):\n    @functools.wraps(g)\n    def w(*a, **k):\n        return g(*a, **k)\n    return w\n@deco\ndef f(df):\n    return body(df=df)", ["df"], "wrapped"),
}

_W = {}


def init_worker():
    import pandas as pd
    import pandera as pa

    pa.DataFrameSchema({"a": pa.Column(int)}).validate(pd.DataFrame({"a": [1]}))


def _frames():
    import pandas as pd

    return {
        "ok": pd.DataFrame({"a": [1, 2, 3]}),
        "coercible": pd.DataFrame({"a": [1.0, 2.0, 3.0]}),
        "bad_first": pd.DataFrame({"a": [-1, 2, 3]}),
        "bad_last": pd.DataFrame({"a": [1, 2, -3]}),
        "two_bad": pd.DataFrame({"a": [-1, 2, -3]}),
    }


def _schema():
    import pandera as pa

    return pa.DataFrameSchema({"a": pa.Column(int, pa.Check.ge(0), coerce=True)})


OPTS = [{}, {"head": 1}, {"tail": 1}, {"lazy": True}, {"head": 2, "lazy": True}]


def _snap(x):
    import pandas as pd

    if isinstance(x, pd.DataFrame):
        return ("DF", tuple(x.columns), tuple(map(str, x.dtypes)), tuple(map(tuple, x.values.tolist())))
    if isinstance(x, (list, tuple)):
        return (type(x).__name__,) + tuple(_snap(v) for v in x)
    if isinstance(x, dict):
        return ("dict",) + tuple((k, _snap(v)) for k, v in sorted(x.items()))
    return x


def _define(shape, decorate, default_frame=None):
    """-> (callable, record dict).  decorate(fn_source_namespace_function) applies the decorator at def time."""
    src, params, kind = SHAPES[shape]
    rec = {"ran": False, "got": None}

    def body(**kw):
        rec["ran"] = True
        rec["got"] = {k: _snap(v) for k, v in kw.items()}
        return kw["df"].assign(b=1) if hasattr(kw["df"], "assign") else kw["df"]

    ns = {"body": body, "DEFAULT": default_frame}
    # insert the decorator textually above the innermost "def f"/"async def f"
    lines = src.split("\n")
    out = []
    for ln in lines:
        stripped = ln.lstrip()
        if stripped.startswith(("def f(", "async def f(")):
            indent = ln[: len(ln) - len(stripped)]
            if kind in ("classmethod", "static"):
                # decorator goes *below* @classmethod/@staticmethod, i.e. directly above def
                pass
            out.append(f"{indent}@DECORATE")
        out.append(ln)
    ns["DECORATE"] = decorate
    exec("\n".join(out), ns)  # noqa: S102
    return ns["f"], rec


def _call_shapes(shape):
    src, params, kind = SHAPES[shape]
    shapes = []
    if params == ["df"]:
        shapes = [("pos", lambda df: ((df,), {})), ("kw", lambda df: ((), {"df": df}))]
        if kind == "varargs":
            shapes.append(("pos+extra", lambda df: ((df, 7, 8), {})))
        if kind == "varkw":
            shapes.append(("pos+kwextra", lambda df: ((df,), {"z": 9})))
    elif params == ["x", "df"]:
        shapes = [("pos", lambda df: ((0, df), {})), ("kw", lambda df: ((), {"x": 0, "df": df})), ("mixed", lambda df: ((0,), {"df": df})),
                  ("kw_reordered", lambda df: ((), {"df": df, "x": 0}))]
        if kind == "default_df":
            shapes.append(("default_not_passed", lambda df: ((0,), {})))
    elif params == ["df", "y"]:
        shapes = [("pos", lambda df: ((df,), {})), ("pos2", lambda df: ((df, 6), {})), ("kw", lambda df: ((), {"df": df, "y": 6})),
                  ("mixed", lambda df: ((df,), {"y": 6}))]
    return shapes


def _designations(shape):
    src, params, kind = SHAPES[shape]
    idx = params.index("df")
    return [("none", None)] * (1 if idx == 0 else 0) + [("int", idx), ("str", "df")]


def _direct(schema, frame, opts):
    """what schema.validate itself does with these options"""
    import pandera as pa

    try:
        return "ok", schema.validate(frame.copy(), **opts)
    except pa.errors.SchemaErrors:
        return "SchemaErrors", None
    except pa.errors.SchemaError:
        return "SchemaError", None


def _invoke(fn, args, kwargs, is_async):
    import pandera as pa

    try:
        with warnings.catch_warnings():
            warnings.simplefilter("ignore")
            r = fn(*args, **kwargs)
            if is_async:
                r = asyncio.run(r)
        return "ok", r
    except pa.errors.SchemaErrors:
        return "SchemaErrors", None
    except pa.errors.SchemaError:
        return "SchemaError", None
    except Exception as e:  # noqa
        return f"exc:{type(e).__name__}", e


def _explore_check_input(shape):
    import pandera as pa

    viol, n = {}, 0
    frames = _frames()
    src, params, kind = SHAPES[shape]
    for dname, getter in _designations(shape):
        for opts in OPTS:
            for fname, frame in frames.items():
                for cname, mk in _call_shapes(shape):
                    n += 1
                    schema = _schema()
                    default = frame if kind == "default_df" else None
                    fn, rec = _define(shape, pa.check_input(schema, getter, **opts), default_frame=default)
                    args, kwargs = mk(frame.copy())
                    want_status, parsed = _direct(_schema(), frame, opts)
                    got_status, res = _invoke(fn, args, kwargs, kind == "async")
                    tag = f"{shape}|{dname}|{cname}"
                    optk = "+".join(sorted(opts)) or "noopts"
                    if got_status.startswith("exc:"):
                        viol.setdefault(("check_input.no_foreign_exception", f"{tag}|{got_status}"), f"opts={opts} frame={fname}: {res!r}")
                        continue
                    if rec["ran"] != (want_status == "ok"):
                        viol.setdefault(("check_input.body_runs_iff_input_valid", f"{tag}|{optk}|{fname}|ran={rec['ran']}"),
                                        f"direct validate -> {want_status}; wrapper -> {got_status}; body ran={rec['ran']}")
                        continue
                    if want_status != got_status:
                        viol.setdefault(("check_input.exception_class", f"{tag}|{optk}|{want_status}->{got_status}"), f"frame={fname}")
                    if want_status == "ok":
                        if rec["got"]["df"] != _snap(parsed):
                            viol.setdefault(("check_input.body_receives_parsed_object", f"{tag}|{optk}|{fname}"),
                                            f"body got {rec['got']['df']} expected {_snap(parsed)}")
                        if _snap(res) != _snap(parsed.assign(b=1)):
                            viol.setdefault(("check_input.result_transparent", f"{tag}|{optk}|{fname}"), f"{_snap(res)}")
                        others = {k: v for k, v in rec["got"].items() if k != "df"}
                        exp_others = {}
                        if "x" in params:
                            exp_others["x"] = 0
                        if params == ["df", "y"]:
                            exp_others["y"] = 6 if ("y" in kwargs or len(args) > 1) else 5
                        if kind == "varargs":
                            exp_others["a"] = ("tuple",) + tuple(args[1:])
                        if kind == "varkw":
                            exp_others["k"] = ("dict",) + tuple(sorted((k, v) for k, v in kwargs.items() if k != "df"))
                        if others != exp_others:
                            viol.setdefault(("check_input.other_arguments_untouched", f"{tag}"), f"body got {others} expected {exp_others}")
    return viol, n


OUT_SHAPES = {
    "single": (lambda df: df, None, lambda out: out),
    "tuple": (lambda df: (0, df), 1, lambda out: out[1]),
    "list": (lambda df: [df, 0], 0, lambda out: out[0]),
    # the same element designated from the end / in the middle: equivalent designations must behave identically
    "tuple_neg1": (lambda df: ({"m": 1}, 0, df), -1, lambda out: out[2]),
    "tuple_pos2": (lambda df: ({"m": 1}, 0, df), 2, lambda out: out[2]),
    "tuple_neg2": (lambda df: (0, df, "z"), -2, lambda out: out[1]),
    "tuple_first_neg": (lambda df: (df, 0, "z"), -3, lambda out: out[0]),
    "list_neg1": (lambda df: [0, df], -1, lambda out: out[1]),
    "dict": (lambda df: {"k": df, "z": 0}, "k", lambda out: out["k"]),
    "callable": (lambda df: {"k": df}, "callable", lambda out: out["k"]),
}


def _explore_check_output():
    import pandera as pa

    viol, n = {}, 0
    frames = _frames()
    for oname, (ret, getter, pick) in OUT_SHAPES.items():
        for is_async in (False, True):
            for opts in OPTS:
                for fname, frame in frames.items():
                    n += 1
                    schema = _schema() if oname != "callable" else pa.DataFrameSchema({"a": pa.Column(float if fname == "coercible" else int, pa.Check.ge(0))})
                    g = (lambda out: out["k"]) if getter == "callable" else getter
                    ran = {"v": False}
                    if is_async:
                        @pa.check_output(schema, g, **opts)
                        async def f(df, ret=ret, ran=ran):
                            ran["v"] = True
                            return ret(df)
                    else:
                        @pa.check_output(schema, g, **opts)
                        def f(df, ret=ret, ran=ran):
                            ran["v"] = True
                            return ret(df)
                    want_status, parsed = _direct(schema, frame, opts)
                    got_status, res = _invoke(f, (frame.copy(),), {}, is_async)
                    tag = f"{oname}|{'async' if is_async else 'sync'}"
                    optk = "+".join(sorted(opts)) or "noopts"
                    if got_status.startswith("exc:"):
                        viol.setdefault(("check_output.no_foreign_exception", f"{tag}|{got_status}"), f"opts={opts} frame={fname}: {res!r}")
                        continue
                    if not ran["v"]:
                        viol.setdefault(("check_output.body_always_runs", tag), "")
                    if want_status != got_status:
                        viol.setdefault(("check_output.output_validated", f"{tag}|{optk}|{fname}|{want_status}->{got_status}"), "")
                        continue
                    if want_status == "ok" and getter != "callable":
                        if _snap(pick(res)) != _snap(parsed):
                            viol.setdefault(("check_output.caller_receives_parsed_output", f"{tag}|{optk}|{fname}"),
                                            f"got {_snap(pick(res))} expected {_snap(parsed)}")
                        if type(res) is not type(ret(frame)):
                            viol.setdefault(("check_output.container_kind_kept", f"{tag}:{type(ret(frame)).__name__}->{type(res).__name__}"), "")
                        elif _snap(res) != _snap(ret(parsed)):
                            # the wrapper returns exactly what the function returned, with only the designated element replaced by its parsed form
                            viol.setdefault(("check_output.rest_of_output_untouched", f"{tag}|{optk}|{fname}"),
                                            f"got {str(_snap(res))[:300]} expected {str(_snap(ret(parsed)))[:300]}")
    return viol, n


def _explore_check_io():
    import pandera as pa

    viol, n = {}, 0
    frames = _frames()
    for opts in OPTS:
        for f1, fr1 in frames.items():
            for f2, fr2 in frames.items():
                n += 1
                s_in, s_out = _schema(), _schema()
                ran = {"v": False, "got": None}

                @pa.check_io(df=s_in, out=s_out, **opts)
                def f(x, df, out_frame, ran=ran):
                    ran["v"] = True
                    ran["got"] = _snap(df)
                    return out_frame

                w1, p1 = _direct(_schema(), fr1, opts)
                w2, p2 = _direct(_schema(), fr2, opts)
                got_status, res = _invoke(f, (0, fr1.copy(), fr2.copy()), {}, False)
                optk = "+".join(sorted(opts)) or "noopts"
                if got_status.startswith("exc:"):
                    viol.setdefault(("check_io.no_foreign_exception", got_status), f"{res!r}")
                    continue
                if ran["v"] != (w1 == "ok"):
                    viol.setdefault(("check_io.body_runs_iff_input_valid", f"{optk}|{f1}|ran={ran['v']}"), "")
                    continue
                want = w1 if w1 != "ok" else w2
                if got_status != want:
                    viol.setdefault(("check_io.outcome", f"{optk}|{f1}|{f2}|{want}->{got_status}"), "")
                elif want == "ok":
                    if ran["got"] != _snap(p1):
                        viol.setdefault(("check_io.body_receives_parsed_object", f"{optk}|{f1}"), "")
                    if _snap(res) != _snap(p2):
                        viol.setdefault(("check_io.caller_receives_parsed_output", f"{optk}|{f2}"), f"{_snap(res)} vs {_snap(p2)}")
    return viol, n


def _explore_check_io_outputs():
    """check_io(out=(getter, schema)) on container outputs: same oracle as check_output"""
    import pandera as pa

    viol, n = {}, 0
    frames = _frames()
    for oname, (ret, getter, pick) in OUT_SHAPES.items():
        if getter in (None, "callable"):
            continue
        for fname, frame in frames.items():
            n += 1
            schema = _schema()

            @pa.check_io(out=(getter, schema))
            def f(df, ret=ret):
                return ret(df)

            want_status, parsed = _direct(schema, frame, {})
            got_status, res = _invoke(f, (frame.copy(),), {}, False)
            if got_status.startswith("exc:"):
                viol.setdefault(("check_io.no_foreign_exception", f"out:{oname}|{got_status}"), f"{res!r}")
                continue
            if want_status != got_status:
                viol.setdefault(("check_io.outcome", f"out:{oname}|{fname}|{want_status}->{got_status}"), "")
            elif want_status == "ok" and _snap(res) != _snap(ret(parsed)):
                viol.setdefault(("check_io.rest_of_output_untouched", f"out:{oname}|{fname}"),
                                f"got {str(_snap(res))[:300]} expected {str(_snap(ret(parsed)))[:300]}")
    return viol, n


def _explore_check_types():
    import typing

    import pandas as pd
    import pandera as pa
    from pandera.typing import DataFrame

    class M(pa.DataFrameModel):
        a: int = pa.Field(ge=0)

        class Config:
            coerce = True

    viol, n = {}, 0
    frames = _frames()
    sigs = {
        "plain": "def f(df: DataFrame[M]) -> DataFrame[M]:\n    return body(df)",
        "optional": "def f(df: typing.Optional[DataFrame[M]]) -> typing.Optional[DataFrame[M]]:\n    return body(df)",
        "x_df": "def f(x: int, df: DataFrame[M]) -> DataFrame[M]:\n    return body(df)",
        "kwonly": "def f(*, df: DataFrame[M]) -> DataFrame[M]:\n    return body(df)",
        "varargs": "def f(*dfs: DataFrame[M]) -> DataFrame[M]:\n    return body(dfs[0])",
        "varkw": "def f(**dfs: DataFrame[M]) -> DataFrame[M]:\n    return body(dfs['df'])",
        "method": "class K:\n    def f(self, df: DataFrame[M]) -> DataFrame[M]:\n        return body(df)\n",
        "async": "async def f(df: DataFrame[M]) -> DataFrame[M]:\n    return body(df)",
        "unannotated_other": "def f(df: DataFrame[M], other) -> DataFrame[M]:\n    return body(df)",
    }
    calls = {
        "plain": [("pos", lambda d: ((d,), {})), ("kw", lambda d: ((), {"df": d}))],
        "optional": [("pos", lambda d: ((d,), {})), ("kw", lambda d: ((), {"df": d}))],
        "x_df": [("pos", lambda d: ((0, d), {})), ("mixed", lambda d: ((0,), {"df": d}))],
        "kwonly": [("kw", lambda d: ((), {"df": d}))],
        "varargs": [("pos", lambda d: ((d,), {}))],
        "varkw": [("kw", lambda d: ((), {"df": d}))],
        "method": [("pos", lambda d: ((d,), {})), ("kw", lambda d: ((), {"df": d}))],
        "async": [("pos", lambda d: ((d,), {}))],
        "unannotated_other": [("pos", lambda d: ((d, frames["bad_first"]), {}))],
    }
    # the coroutine wrapper is a separate copy of the synchronous one: every signature shape x call shape also as `async def`
    for k in list(sigs):
        if k != "async":
            sigs["async_" + k] = sigs[k].replace("def f(", "async def f(")
            calls["async_" + k] = calls[k]
    calls["async"] = calls["plain"]
    for sname, src in sigs.items():
        for lazy in (False, True):
            for fname, frame in frames.items():
                for cname, mk in calls[sname]:
                    n += 1
                    ran = {"v": False, "got": None}

                    def body(df, ran=ran):
                        ran["v"] = True
                        ran["got"] = _snap(df)
                        return df

                    ns = {"DataFrame": DataFrame, "M": M, "typing": typing, "body": body, "pa": pa}
                    deco = "@pa.check_types(lazy=True)" if lazy else "@pa.check_types"
                    lines = []
                    for ln in src.split("\n"):
                        st = ln.lstrip()
                        if st.startswith(("def f(", "async def f(")):
                            lines.append(ln[: len(ln) - len(st)] + deco)
                        lines.append(ln)
                    try:
                        exec("\n".join(lines), ns)  # noqa: S102
                    except Exception as e:  # noqa
                        viol.setdefault(("check_types.definition", f"{sname}:{type(e).__name__}"), repr(e)[:200])
                        continue
                    fn = ns["K"]().f if sname.endswith("method") else ns["f"]
                    want_status, parsed = _direct(M.to_schema(), frame, {"lazy": lazy})
                    args, kwargs = mk(frame.copy())
                    got_status, res = _invoke(fn, args, kwargs, sname.startswith("async"))
                    tag = f"{sname}|{cname}|{'lazy' if lazy else 'eager'}"
                    if got_status.startswith("exc:"):
                        viol.setdefault(("check_types.no_foreign_exception", f"{tag}|{got_status}"), f"frame={fname}: {res!r}")
                        continue
                    if ran["v"] != (want_status == "ok"):
                        viol.setdefault(("check_types.body_runs_iff_input_valid", f"{tag}|{fname}|ran={ran['v']}"), f"direct={want_status} wrapper={got_status}")
                        continue
                    if got_status != want_status:
                        viol.setdefault(("check_types.exception_class", f"{tag}|{want_status}->{got_status}"), f"frame={fname}")
                    if want_status == "ok" and ran["got"] != _snap(parsed):
                        viol.setdefault(("check_types.body_receives_parsed_object", f"{tag}|{fname}"), f"{ran['got']} vs {_snap(parsed)}")
                # Optional: None passes through
        if sname == "optional":
            n += 1  # (synchronous shape only)
            ran = {"v": False}
            ns = {"DataFrame": DataFrame, "M": M, "typing": typing, "body": lambda df, ran=ran: (ran.__setitem__("v", True), df)[1], "pa": pa}
            exec("@pa.check_types\n" + src, ns)  # noqa: S102
            st, res = _invoke(ns["f"], (None,), {}, False)
            if st != "ok" or res is not None or not ran["v"]:
                viol.setdefault(("check_types.optional_none_passes", st), "")
    return viol, n


def _explore_check_types_multi():
    """check_types on signatures with SEVERAL annotated parameters (plain, Union of models, Union of non-dataframe types, Union return):
    each argument is checked against its OWN annotation -- the body runs iff every argument satisfies (one alternative of) its
    annotation, whatever the sibling annotations are and in whichever order the parameters are declared."""
    import pathlib
    import typing

    import pandas as pd
    import pandera as pa
    from pandera.typing import DataFrame

    class P(pa.DataFrameModel):
        a: int = pa.Field(ge=0)

    class Q(pa.DataFrameModel):
        b: int = pa.Field(ge=0)

    class W(pa.DataFrameModel):
        c: int = pa.Field(ge=0)

    models = {"P": P, "Q": Q, "W": W}
    frames = {"fP": pd.DataFrame({"a": [1, 2]}), "fQ": pd.DataFrame({"b": [1, 2]}), "fW": pd.DataFrame({"c": [1, 2]}),
              "fbad": pd.DataFrame({"a": [-1, 2]}), "fPQ": pd.DataFrame({"a": [1], "b": [2]})}
    values = dict(frames, path=pathlib.PurePosixPath("x/y"), text="t")
    ok = {(m, f): _direct(M.to_schema(), fr, {})[0] == "ok" for m, M in models.items() for f, fr in frames.items()}
    ann = {"P": "DataFrame[P]", "Q": "DataFrame[Q]", "QW": "typing.Union[DataFrame[Q], DataFrame[W]]", "PW": "typing.Union[DataFrame[P], DataFrame[W]]",
           "other": "typing.Union[str, pathlib.PurePosixPath]", "optP": "typing.Optional[DataFrame[P]]"}
    alts = {"P": ["P"], "Q": ["Q"], "QW": ["Q", "W"], "PW": ["P", "W"], "other": None, "optP": ["P"]}
    # (annotation of x, annotation of y, return annotation or None)
    sigs = [("P", "Q", None), ("Q", "P", None), ("P", "QW", None), ("QW", "P", None), ("PW", "QW", None), ("P", "other", None), ("other", "P", None),
            ("optP", "QW", None), ("P", None, "QW"), ("QW", None, "P"), ("P", "P", None)]
    viol, n = {}, 0
    for ax, ay, ret in sigs:
        for is_async in (False, True):
            xs = ["path", "text"] if alts[ax] is None else list(frames)
            ys = [None] if ay is None else (["path", "text"] if alts[ay] is None else list(frames))
            rs = [None] if ret is None else list(frames)
            for vx, vy, vr in itertools.product(xs, ys, rs):
                n += 1
                ran = {"v": False}

                def body(x, y=None, ran=ran, vr=vr):
                    ran["v"] = True
                    return frames[vr].copy() if vr is not None else 0

                params = f"x: {ann[ax]}" + (f", y: {ann[ay]}" if ay is not None else "")
                src = f"@pa.check_types\n{'async ' if is_async else ''}def f({params}){' -> ' + ann[ret] if ret else ''}:\n    return body(x{', y' if ay is not None else ''})"
                ns = {"DataFrame": DataFrame, "typing": typing, "pathlib": pathlib, "body": body, "pa": pa, **models}
                tag = f"{'async:' if is_async else ''}x={ax},y={ay},ret={ret}"
                try:
                    exec(src, ns)  # noqa: S102
                except Exception as e:  # noqa
                    viol.setdefault(("check_types.definition", f"{tag}:{type(e).__name__}"), repr(e)[:200])
                    continue
                x = values[vx].copy() if vx in frames else values[vx]
                args = (x,) if ay is None else (x, values[vy].copy() if vy in frames else values[vy])
                st, res = _invoke(ns["f"], args, {}, is_async)
                in_ok = all(a is None or alts[a] is None or any(ok[(m, v)] for m in alts[a]) for a, v in ((ax, vx), (ay, vy)))
                out_ok = ret is None or any(ok[(m, vr)] for m in alts[ret])
                if ran["v"] != in_ok:
                    viol.setdefault(("check_types.each_argument_against_its_own_annotation", f"{tag}|x={vx},y={vy}|ran={ran['v']}"), f"status={st} {res!r}"[:300])
                    continue
                want = "ok" if (in_ok and out_ok) else "SchemaError"
                got = st if st in ("ok",) else ("SchemaError" if st in ("SchemaError", "SchemaErrors") else st)
                if got != want:
                    viol.setdefault(("check_types.multi_outcome", f"{tag}|x={vx},y={vy},r={vr}|{want}->{got}"), f"{res!r}"[:300])
    return viol, n


def plan(tier, seed):
    cases = [{"part": "check_input", "shape": s} for s in SHAPES]
    cases += [{"part": "check_output"}, {"part": "check_io"}, {"part": "check_io_outputs"}, {"part": "check_types"}, {"part": "check_types_multi"}]
    return {"cases": cases, "exhaustive": True,
            "bounds": {"signature_shapes": list(SHAPES), "options": OPTS, "frames": ["ok", "coercible", "bad_first", "bad_last", "two_bad"],
                       "output_shapes": list(OUT_SHAPES)},
            "rule": "one case = one signature shape (check_input) or one decorator; states = every (designation, call shape, options, frame) "
                    "combination; non-trivial = every combination (each one defines and calls a freshly decorated function)"}


def run_case(case):
    p = case["part"]
    if p == "check_input":
        viol, n = _explore_check_input(case["shape"])
    elif p == "check_output":
        viol, n = _explore_check_output()
    elif p == "check_io":
        viol, n = _explore_check_io()
    elif p == "check_io_outputs":
        viol, n = _explore_check_io_outputs()
    elif p == "check_types_multi":
        viol, n = _explore_check_types_multi()
    else:
        viol, n = _explore_check_types()
    v = [{"clause": c, "key": k, "detail": d[:600]} for (c, k), d in viol.items()]
    n = max(n, 1)
    return {"viol": v, "states": n, "transitions": n * 2, "execs": n * 2, "nontrivial": True, "nontrivial_n": n,
            "outcome": p + ":" + case.get("shape", "-")}
