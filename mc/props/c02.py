"""C02 — lazy and eager validation agree; the lazy error report is exact.

Same deviation-bounded space as C01 (pandas) plus its polars twin for the agreement clauses.
Clauses:
  raises_agree          raises(lazy) <=> raises(eager)
  eager_in_lazy         the eager SchemaError's (reason, check, schema context, column) is among the lazy errors
  report_exact          lazy failure_cases as a set == reference model's violating cells + frame-level entries
  counts                error_counts[reason] == number of collected errors with that reason
  message_entries       the message has one entry per collected error
"""
from __future__ import annotations

from collections import Counter

from mc import observe as O
from mc.props import espace
from mc.ref import semantics as R
from mc.spec import schema as S
from mc.spec import table as T

PROPERTY = "C02"
LEVEL = "model_checking"
ASSUMPTIONS = [
    "report exactness is judged only where the reference model defines the full violation set (report_defined)",
    "polars twin: agreement clauses only (its report rows carry no index labels for frame-level entries)",
]


def plan(tier, seed):
    cases = espace.plan_shards(tier, parsers=False)
    pol = espace.plan_shards(tier, parsers=False, bases=["frame"], extra={"backend": "polars"}, quick_pairs=())
    return {"cases": cases + pol, "exhaustive": True, "bounds": dict(espace.BOUNDS_TEXT, tier=tier),
            "rule": "state = distinct (schema, table) pair, each validated eagerly and lazily; non-trivial = the lazy run "
                    "collected at least one error; 'multi' counter = cases with >= 2 simultaneous errors"}


def ck(v):
    """canonical comparison key of a value / row key: numbers by value, tuples element-wise;
    MultiIndex labels arrive as the *string* of a tuple and are parsed back."""
    import ast

    v = T.norm(v)
    if v is None:
        return "null"
    if isinstance(v, bool):
        return f"b:{v}"
    if isinstance(v, (int, float)):
        return repr(float(v))
    if isinstance(v, str):
        if v.startswith("(") and v.endswith(")"):
            try:
                t = ast.literal_eval(v.replace("nan", "None"))
                if isinstance(t, tuple):
                    return ck(t)
            except Exception:  # noqa
                pass
        return "s:" + v
    if isinstance(v, (tuple, list)):
        return "(" + ",".join(ck(x) for x in v) + ")"
    return "o:" + repr(v)


def expected_rows(ref, skip_ctx=()):
    rows = Counter()
    for (ctx, column, cid, value, _lvl) in ref.frame:
        if ctx in skip_ctx:
            continue
        rows[(ctx, None if ctx == "MultiIndex" else column, cid, ck(value), None)] += 1
    for (ctx, column, cid, rowkey, value, _lvl, _pos) in ref.cells:
        if ctx in skip_ctx:
            continue
        rows[(ctx, column, cid, ck(value), ck(rowkey))] += 1
    return rows


def observed_rows(report):
    rows = Counter()
    for r in report["rows"]:
        idx = r["index"]
        col, val = r["column"], r["value"]
        if col == "failure_case" and isinstance(val, dict):
            # table-valued frame-level check: pandera reports one row per failing label whose
            # failure_case is {column: value}; expand to one entry per offending cell
            for c2, v2 in val.items():
                rows[(r["ctx"], c2, r["check"], ck(v2), None if idx is None else ck(idx))] += 1
            continue
        if idx is None and r["ctx"] == "MultiIndex":
            col = None  # scalar entries of a MultiIndex carry no level attribution
        rows[(r["ctx"], col, r["check"], ck(val), None if idx is None else ck(idx))] += 1
    return rows


def _err_id(e):
    return (e.get("reason"), e.get("check"))


def _err_targets(e):
    """names the error may be attributed to (schema name, column_name, column of its failure cases)."""
    t = {e.get("schema_name"), e.get("column_name")}
    for r in e.get("fc_rows") or []:
        t.add(r[0])
    t.discard(None)
    return t


def _same_error(e, x):
    if _err_id(e) != _err_id(x):
        return False
    a, b = _err_targets(e), _err_targets(x)
    return (not a) or (not b) or bool(a & b)


def _clauses(cc, backend="pandas"):
    out = []
    if backend == "polars":
        if not (S.polars_expressible(cc["schema"]) and T.polars_representable(cc["table"])):
            return out, None, "n/a"
        eager = O.validate_polars(cc["schema"], cc["table"], lazy=False)
        lazy = O.validate_polars(cc["schema"], cc["table"], lazy=True)
        ref = None
    else:
        ref = R.evaluate(cc["schema"], cc["table"])
        eager = O.validate_pandas(cc["schema"], cc["table"], lazy=False)
        lazy = O.validate_pandas(cc["schema"], cc["table"], lazy=True)
    label = f"{eager['outcome']}/{lazy['outcome']}"
    if "leak" in (eager["outcome"], lazy["outcome"]):
        # internal exceptions are C06's business; only the asymmetric case matters here
        if eager["outcome"] != lazy["outcome"] and not (O.rejected(eager) or O.rejected(lazy)):
            out.append(("raises_agree", f"{eager['outcome']}:{eager.get('exc')}|{lazy['outcome']}:{lazy.get('exc')}",
                        f"eager={eager.get('msg')} lazy={lazy.get('msg')}"))
        return out, ref, label
    if O.accepted(eager) != O.accepted(lazy) or O.rejected(eager) != O.rejected(lazy):
        out.append(("raises_agree", f"eager={eager['outcome']}|lazy={lazy['outcome']}",
                    f"eager_error={eager.get('error')} lazy_errors={(lazy.get('report') or {}).get('errors')}"))
        return out, ref, label
    if lazy["outcome"] == "SchemaErrors" and eager["outcome"] != "SchemaError":
        out.append(("raises_agree", f"eager={eager['outcome']}|lazy=SchemaErrors", ""))
    if eager["outcome"] == "SchemaError" and lazy["outcome"] != "SchemaErrors":
        out.append(("raises_agree", f"eager=SchemaError|lazy={lazy['outcome']}", ""))
    if lazy["outcome"] != "SchemaErrors":
        return out, ref, label
    rep = lazy["report"]
    if eager["outcome"] == "SchemaError":
        e = eager["error"]
        if not any(_same_error(e, x) for x in rep["errors"]):
            ids = [(_err_id(x), sorted(map(str, _err_targets(x)))) for x in rep["errors"]]
            out.append(("eager_in_lazy", f"{e.get('reason')}:{e.get('check')}",
                        f"eager={_err_id(e)} {sorted(map(str, _err_targets(e)))} lazy={ids}"))
    # counts
    by_reason = Counter(x["reason"] for x in rep["errors"])
    if dict(by_reason) != {k: v for k, v in rep["error_counts"].items() if v}:
        out.append(("counts", "error_counts", f"recount={dict(by_reason)} reported={rep['error_counts']}"))
    if rep["n_message_entries"] != len(rep["errors"]):
        out.append(("message_entries", "message", f"entries={rep['n_message_entries']} errors={len(rep['errors'])}"))
    # the counts clause at the reduced validation depths as well (fewer errors are collected there, from steps that the depth does not
    # gate -- error_counts must still count exactly what the report carries).  NOT the message clause: the summary in the message
    # is filtered by depth on purpose, and the property only speaks about the counts.
    from pandera.config import ValidationDepth, config_context

    for depth in (ValidationDepth.SCHEMA_ONLY, ValidationDepth.DATA_ONLY):
        with config_context(validation_depth=depth):
            lz = (O.validate_polars if backend == "polars" else O.validate_pandas)(cc["schema"], cc["table"], lazy=True)
        if lz["outcome"] != "SchemaErrors":
            continue
        r2 = lz["report"]
        rc = Counter(x["reason"] for x in r2["errors"])
        if dict(rc) != {k: v for k, v in r2["error_counts"].items() if v}:
            out.append(("counts", f"error_counts@{depth.name}", f"recount={dict(rc)} reported={r2['error_counts']}"))
    if backend == "pandas" and ref is not None and ref.report_defined and ref.verdict == "REJECT":
        skip = set(ref.unspec_checks) | {(c, None, i) for (c, _col, i) in ref.unspec_checks if c == "MultiIndex"}

        def settled(rows):
            return Counter({k: v for k, v in rows.items() if (k[0], k[1], k[2]) not in skip}) if skip else rows

        exp, got = settled(expected_rows(ref)), settled(observed_rows(rep))
        series_raw = expected_rows(ref, skip_ctx=("Index", "MultiIndex"))
        series_part = settled(series_raw)
        if (exp != got and cc["schema"].get("kind") == "series" and cc["schema"].get("index") is not None
                and series_raw and series_part != exp and got == series_part):
            # structural finding: SeriesSchema.validate(lazy=True) raises after the value checks and
            # never reaches the index schema, so index violations are missing from the report
            out.append(("report_exact.series_index_skipped", "@series_errors_hide_index_errors",
                        f"expected={sorted(map(str, exp.elements()))} got={sorted(map(str, got.elements()))}"))
        elif exp != got:
            missing = sorted(map(str, (exp - got).elements()))
            extra = sorted(map(str, (got - exp).elements()))
            mi = (cc["table"].get("index") or {}).get("kind") == "multi"
            ex_items = list((got - exp).elements())
            ms_items = list((exp - got).elements())
            if (mi and len(ex_items) == 1 and "Must pass list-like as `names`" in ex_items[0][3]
                    and ms_items and all(m[0] == "DataFrameSchema" and m[2] == ex_items[0][2] for m in ms_items)):
                # structural finding: a failing table-valued dataframe-level check on a frame with a
                # MultiIndex cannot build its failure cases (rename_axis("index") on a MultiIndex)
                out.append(("report_exact.multiindex_frame_check", "@typeerror_building_failure_cases",
                            f"missing={missing[:6]} extra={extra[:6]}"))
                return out, ref, label + ":multi"
            kinds = sorted({m.split(",")[2].strip(" '") for m in missing} | {"+" + x.split(",")[2].strip(" '") for x in extra})
            out.append(("report_exact", "|".join(kinds), f"missing={missing[:6]} extra={extra[:6]}"))
    return out, ref, label + (":multi" if len(rep["errors"]) >= 2 else "")


def make_oracle(backend):
    def oracle(cc):
        cl, ref, label = _clauses(cc, backend)
        viol = []
        for clause, key, detail in cl:
            if key.startswith("@"):  # structural finding with a fixed key: no edit signature
                viol.append({"clause": clause, "key": f"{backend}:{key[1:]}", "detail": detail[:1500]})
                continue

            def still(c2, clause=clause, key=key):
                return any(c == clause and k == key for c, k, _ in _clauses(c2, backend)[0])
            m = espace.minimise(cc, still)
            viol.append({"clause": clause, "key": f"{backend}:{key}|{espace.signature(m)}", "detail": detail[:1500]})
        return viol, ("SchemaErrors" in label), backend + ":" + label
    return oracle


_ORACLES = {"pandas": make_oracle("pandas"), "polars": make_oracle("polars")}


def run_case(case):
    return espace.run_shard(case, _ORACLES[case.get("backend", "pandas")])
