"""C06 — errors use the documented channel; failures leave no trace (exception safety).

Part A (channel, no faults): over the C01 space and the parser-enabled space, pandas and polars,
plus a non-dataframe argument alphabet, the only outcomes are: return, SchemaError, SchemaErrors,
SchemaDefinitionError, SchemaInitError, and TypeError/BackendNotFoundError for a non-dataframe
argument.  A leak is keyed by exception type and the innermost pandera frame.

Part B (fault enumeration, stateless choice-point exploration): harness schemas carry user
callbacks of every kind.  Run 0 counts callback invocations N; then for every k <= N and each
exception class the run is repeated with the fault injected at invocation k (deviation bound 1;
thorough: all pairs k1 < k2).  Oracle: a fault inside a check function (or its groupby function)
=> SchemaError/SchemaErrors carrying a CHECK_ERROR; any other callback => documented channel or the
injected exception object itself; always: schema fingerprint, configuration and input snapshot
after == before.
"""
from __future__ import annotations

import itertools

from mc import observe as O
from mc.props import espace
from mc.ref import fingerprint as FP
from mc.spec import schema as S
from mc.spec import table as T

PROPERTY = "C06"
LEVEL = "fault_enumeration"
ASSUMPTIONS = ["faults are exceptions raised by user callbacks; interpreter-level faults (MemoryError, KeyboardInterrupt) are out of scope"]

DOCUMENTED = ("ok", "SchemaError", "SchemaErrors", "SchemaDefinitionError", "SchemaInitError")
ALLOWED_A = DOCUMENTED + ("user_callback_exception", "lazy_result_failed_on_collect")  # a Parser function raising its own exception


# ---------------------------------------------------------------------------------------------
# Part A
def _oracle_A(backend):
    def oracle(cc):
        viol = []
        labels = []
        if backend == "pandas":
            runs = [("eager", O.validate_pandas(cc["schema"], cc["table"], lazy=False)),
                    ("lazy", O.validate_pandas(cc["schema"], cc["table"], lazy=True))]
        else:
            if not (S.polars_expressible(cc["schema"]) and T.polars_representable(cc["table"])):
                return [], False, "n/a"
            runs = []
            for lazy in (False, True):
                for lf in (False, True):
                    runs.append((("lazy" if lazy else "eager") + (":LazyFrame" if lf else ":DataFrame"),
                                 O.validate_polars(cc["schema"], cc["table"], lazy=lazy, as_lazyframe=lf)))
        for tag, obs in runs:
            labels.append(obs["outcome"])
            if obs["outcome"] not in ALLOWED_A:
                key = f"{backend}:{obs.get('exc')}@{obs.get('where')}"
                viol.append({"clause": "channel", "key": key, "detail": f"{tag}: {obs.get('msg')}"})
        return viol, any(l != "ok" for l in labels), backend + ":" + "/".join(sorted(set(labels)))
    return oracle


_OA = {"pandas": _oracle_A("pandas"), "polars": _oracle_A("polars")}

NON_FRAMES = ["none", "list", "dict", "int", "str", "series_for_frame", "frame_for_series", "ndarray"]


def _non_frame_case(case):
    import numpy as np
    import pandas as pd
    import pandera as pa
    import pandera.polars as pp
    import polars as pl

    args = {"none": None, "list": [1, 2, 3], "dict": {"a": [1, 2, 3]}, "int": 3, "str": "abc",
            "series_for_frame": pd.Series([1, 2, 3], name="a"), "frame_for_series": pd.DataFrame({"a": [1, 2, 3]}),
            "ndarray": np.array([1, 2, 3])}
    schemas = {
        "DataFrameSchema": (pa.DataFrameSchema({"a": pa.Column(int)}), ("frame_for_series",)),
        "SeriesSchema": (pa.SeriesSchema(int, name="a"), ("series_for_frame",)),
        "Column": (pa.Column(int, name="a"), ("frame_for_series",)),
        "Index": (pa.Index(int), ("frame_for_series", "series_for_frame")),
        "polars.DataFrameSchema": (pp.DataFrameSchema({"a": pp.Column(int)}), ()),
        "polars.Column": (pp.Column(int, name="a"), ()),
    }
    viol, n = [], 0
    for sname, (schema, valid_for) in schemas.items():
        for aname in NON_FRAMES:
            if aname in valid_for:
                continue
            for lazy in (False, True):
                n += 1
                try:
                    schema.validate(args[aname], lazy=lazy)
                    outcome = "ok"
                except (pa.errors.SchemaError, pa.errors.SchemaErrors, pa.errors.SchemaDefinitionError, pa.errors.SchemaInitError) as e:
                    outcome = type(e).__name__
                except (TypeError, pa.errors.BackendNotFoundError) as e:
                    outcome = "usage:" + type(e).__name__
                except Exception as e:  # noqa
                    outcome = "leak"
                    viol.append({"clause": "channel.non_dataframe_argument",
                                 "key": f"{sname}:{aname}:{type(e).__name__}@{O.pandera_frame_of(e)}",
                                 "detail": f"lazy={lazy}: {str(e)[:200]}"})
    uniq = {}
    for v in viol:
        uniq.setdefault((v["clause"], v["key"]), v)
    return {"viol": list(uniq.values()), "states": n, "transitions": n, "execs": n, "nontrivial": True,
            "nontrivial_n": n, "outcome": "nonframe"}


# ---------------------------------------------------------------------------------------------
# Part B: fault injection
class Injected(Exception):
    """custom exception class used as one of the injected faults"""


class NoArgs(Exception):
    """raised without any argument (what a bare `assert`, `raise NotImplementedError` or `next()` on an empty iterator produce):
    error handlers that format exc.args[0] must cope with it"""

    def __init__(self, *_a):
        super().__init__()


def NestedSchemaError(_msg):
    """what a check that validates nested / derived data with another schema raises: a fully populated pandera SchemaError"""
    import pandas as pd
    import pandera as pa

    try:
        pa.SeriesSchema(int, pa.Check.gt(10**6), name="nested").validate(pd.Series([1, 2]))
    except pa.errors.SchemaError as e:
        return e
    raise AssertionError("nested validation did not fail")


FAULTS = {"ValueError": ValueError, "KeyError": KeyError, "TypeError": TypeError, "Injected": Injected, "NoArgs": NoArgs,
          "NestedSchemaError": NestedSchemaError}


class Ticker:
    def __init__(self, fault_at=(), exc_cls=ValueError):
        self.n = 0
        self.fault_at = set(fault_at)
        self.exc_cls = exc_cls
        self.log = []       # names in invocation order
        self.raised = []    # (k, name, exception object)

    def tick(self, name):
        self.n += 1
        self.log.append(name)
        if self.n in self.fault_at:
            exc = self.exc_cls(f"injected fault #{self.n} in {name}")
            self.raised.append((self.n, name, exc))
            raise exc


_W = {}


def init_worker():
    import pandas as pd
    import pandera as pa
    from pandera import dtypes
    from pandera.engines import pandas_engine

    tk_holder = {"t": Ticker()}
    _W["tk"] = tk_holder

    @pandas_engine.Engine.register_dtype
    @dtypes.immutable
    class TickInt(pandas_engine.INT64):
        """custom dtype whose check / coerce are user callbacks"""

        def coerce(self, data_container):
            tk_holder["t"].tick("dtype.coerce")
            return data_container.astype("int64")

        def check(self, pandera_dtype, data_container=None):
            tk_holder["t"].tick("dtype.check")
            return super().check(pandera_dtype, data_container)

    _W["TickInt"] = TickInt
    # warm-up: register backends
    pa.DataFrameSchema({"a": pa.Column(int)}).validate(pd.DataFrame({"a": [1]}))
    pa.SeriesSchema(int).validate(pd.Series([1]))
    import pandera.polars as pp
    import polars as pl

    pp.DataFrameSchema({"a": pp.Column(int)}).validate(pl.DataFrame({"a": [1]}))


def _tk():
    return _W["tk"]["t"]


def _build_harness(name):
    """-> (schema, data, kind)  -- callbacks call _tk().tick(<name>)"""
    import pandas as pd
    import pandera as pa

    def vec(s):
        _tk().tick("check.vec")
        return s > 0

    def elem(x):
        _tk().tick("check.elem")
        return x > 0

    def grp(d):
        _tk().tick("check.groupby_dict")
        return all((v > 0).all() for v in d.values())

    def grp_callable(df):
        _tk().tick("check.groupby_fn")
        return df.groupby("g")

    def ixcheck(s):
        _tk().tick("check.index")
        return s >= 10

    def framecheck(df):
        _tk().tick("check.frame")
        return df["a"] > 0

    def rowcheck(row):
        _tk().tick("check.row")
        return row["a"] > 0

    def colparser(s):
        _tk().tick("parser.column")
        return s

    def frameparser(df):
        _tk().tick("parser.frame")
        return df

    bad = name.endswith("_bad")
    base = name[:-4] if bad else name
    a_vals = [1, -2, 3] if bad else [1, 2, 3]
    df = pd.DataFrame({"a": a_vals, "g": ["u", "v", "u"]}, index=pd.Index([10, 20, 30], name="idx"))
    if base == "frame":
        schema = pa.DataFrameSchema(
            {"a": pa.Column(int, checks=[pa.Check(vec), pa.Check(elem, element_wise=True), pa.Check(grp, groupby="g"),
                                         pa.Check(grp, groupby=grp_callable)]),
             "g": pa.Column(str, parsers=pa.Parser(colparser))},
            index=pa.Index(int, pa.Check(ixcheck), name="idx"),
            checks=[pa.Check(framecheck), pa.Check(rowcheck, element_wise=True)],
            parsers=pa.Parser(frameparser))
        return schema, df, "frame"
    if base == "frame_coerce_customdtype":
        schema = pa.DataFrameSchema({"a": pa.Column(_W["TickInt"](), checks=[pa.Check(vec)], coerce=True), "g": pa.Column(str)},
                                    coerce=True)
        return schema, df.astype({"a": "float64"}), "frame"
    if base == "frame_regex":
        df2 = pd.DataFrame({"a1": a_vals, "a2": [4, 5, 6]})
        schema = pa.DataFrameSchema({"a.*": pa.Column(int, checks=[pa.Check(vec), pa.Check(elem, element_wise=True)], regex=True,
                                                      parsers=pa.Parser(colparser))})
        return schema, df2, "frame"
    if base == "frame_dtype":
        df2 = pd.DataFrame({"a": a_vals, "b": [4, 5, 6]})
        schema = pa.DataFrameSchema({"a": pa.Column(checks=[pa.Check(vec)]), "b": pa.Column(checks=[pa.Check(elem, element_wise=True)])},
                                    dtype=int, coerce=True)
        return schema, df2, "frame"
    if base == "series":
        schema = pa.SeriesSchema(_W["TickInt"](), checks=[pa.Check(vec), pa.Check(elem, element_wise=True)], name="a",
                                 parsers=pa.Parser(colparser), index=pa.Index(int, pa.Check(ixcheck)))
        return schema, df["a"], "series"
    if base == "column":
        schema = pa.Column(int, checks=[pa.Check(vec), pa.Check(grp, groupby="g")], name="a")
        return schema, df, "frame"
    if base == "column_parser":
        schema = pa.Column(int, checks=[pa.Check(vec), pa.Check(elem, element_wise=True)], name="a", parsers=pa.Parser(colparser))
        return schema, df, "frame"
    if base == "frame_drop":
        schema = pa.DataFrameSchema({"a": pa.Column(int, checks=[pa.Check(vec), pa.Check(elem, element_wise=True)])},
                                    drop_invalid_rows=True)
        return schema, df, "frame"
    if base == "polars":
        import pandera.polars as pp
        import polars as pl

        def pvec(data):
            _tk().tick("check.vec")
            return data.lazyframe.select(pl.col(data.key).gt(0))

        def pframe(data):
            _tk().tick("check.frame")
            return data.lazyframe.select(pl.col("a").gt(0))

        schema = pp.DataFrameSchema({"a": pp.Column(int, checks=[pa.Check(pvec)]), "g": pp.Column(str)}, checks=[pa.Check(pframe)])
        return schema, pl.DataFrame({"a": a_vals, "g": ["u", "v", "u"]}), "polars"
    raise AssertionError(name)


HARNESSES = ["frame", "frame_bad", "frame_coerce_customdtype", "frame_regex", "frame_regex_bad", "frame_dtype", "series",
             "series_bad", "column", "column_bad", "column_parser", "frame_drop", "frame_drop_bad", "polars", "polars_bad"]


def _run_once(hname, lazy, fault_at, exc_name):
    import pandera as pa
    from pandera import config as cfg

    _W["tk"]["t"] = Ticker(fault_at, FAULTS[exc_name])
    schema, data, kind = _build_harness(hname)
    fp0 = FP.fingerprint(schema)
    cfg0 = FP.config_state()
    snap = T.snap_polars if kind == "polars" else T.snap_pandas
    in0 = snap(data)
    reasons = []
    try:
        schema.validate(data, lazy=lazy)
        outcome, exc_obj = "ok", None
    except pa.errors.SchemaErrors as e:
        outcome, exc_obj = "SchemaErrors", e
        reasons = [x.reason_code.name for x in e.schema_errors if x.reason_code is not None]
    except pa.errors.SchemaError as e:
        outcome, exc_obj = "SchemaError", e
        reasons = [e.reason_code.name] if e.reason_code is not None else []
    except (pa.errors.SchemaDefinitionError, pa.errors.SchemaInitError) as e:
        outcome, exc_obj = type(e).__name__, e
    except BaseException as e:  # noqa
        outcome, exc_obj = "other", e
    tk = _tk()
    fp1 = FP.fingerprint(schema)
    return {"outcome": outcome, "exc": exc_obj, "reasons": reasons, "n": tk.n, "log": list(tk.log), "raised": list(tk.raised),
            "schema_same": fp0 == fp1, "schema_diff": FP.diff(fp0, fp1) if fp0 != fp1 else [],
            "config_same": cfg0 == FP.config_state(), "input_same": in0 == snap(data)}


def _judge(hname, lazy, r, base_outcome):
    """violations of one faulted run"""
    viol = []
    tag = f"{hname}:{'lazy' if lazy else 'eager'}"
    names = [nm for _k, nm, _e in r["raised"]]
    first = names[0] if names else None
    cat = None if first is None else first.split(".")[0]
    if r["raised"]:
        inj_objs = [e for _k, _n, e in r["raised"]]
        if all(nm.startswith("check.") for nm in names):
            if r["outcome"] not in ("SchemaError", "SchemaErrors"):
                where = O.pandera_frame_of(r["exc"]) if r["exc"] is not None else "-"
                viol.append(("check_fault_reported_as_failed_check", f"{first}:{r['outcome']}:{type(r['exc']).__name__}@{where}",
                             f"{tag} faults={names} outcome={r['outcome']} exc={r['exc']!r}"))
            elif any(type(e).__name__ == "SchemaError" for e in inj_objs):
                # a pandera SchemaError coming out of a check may be reported under the reason of a failed check of either kind
                if not set(r["reasons"]) & {"CHECK_ERROR", "DATAFRAME_CHECK"} and not (r["outcome"] == "SchemaError" and any(r["exc"] is e for e in inj_objs)):
                    viol.append(("check_fault_reported_as_failed_check", f"{first}:nested_schema_error:reasons={sorted(set(r['reasons']))}",
                                 f"{tag} faults={names} reasons={r['reasons']}"))
            elif "CHECK_ERROR" not in r["reasons"] and r["outcome"] == "SchemaErrors":
                viol.append(("check_fault_reported_as_failed_check", f"{first}:no_CHECK_ERROR_in_lazy_report",
                             f"{tag} faults={names} reasons={r['reasons']}"))
            elif r["outcome"] == "SchemaError" and "CHECK_ERROR" not in r["reasons"] and base_outcome == "ok":
                viol.append(("check_fault_reported_as_failed_check", f"{first}:eager_reason:{r['reasons']}",
                             f"{tag} faults={names} reasons={r['reasons']}"))
        else:
            ok = r["outcome"] in DOCUMENTED or any(r["exc"] is e for e in inj_objs)
            if not ok:
                where = O.pandera_frame_of(r["exc"]) if r["exc"] is not None else "-"
                viol.append(("callback_fault_channel", f"{first}:{type(r['exc']).__name__}@{where}",
                             f"{tag} faults={names} outcome={r['outcome']} exc={r['exc']!r}"))
    else:
        if r["outcome"] == "other":
            viol.append(("channel", f"harness:{hname}:{type(r['exc']).__name__}@{O.pandera_frame_of(r['exc'])}", f"{tag} {r['exc']!r}"))
    if not r["schema_same"]:
        viol.append(("state.schema_unchanged", f"{cat}:{hname}:{'|'.join(d.split(':')[0] for d in r['schema_diff'][:3])}",
                     f"{tag} faults={names} diff={r['schema_diff']}"))
    if not r["config_same"]:
        viol.append(("state.config_unchanged", f"{cat}:{hname}", f"{tag} faults={names}"))
    if not r["input_same"]:
        viol.append(("state.input_unchanged", f"{cat}:{hname}", f"{tag} faults={names}"))
    return viol


def _fault_case(case):
    hname, lazy, bound = case["harness"], case["lazy"], case["bound"]
    base = _run_once(hname, lazy, (), "ValueError")
    n0 = base["n"]
    viol = [_v for _v in _judge(hname, lazy, base, base["outcome"])]
    execs, outcomes = 1, {base["outcome"]: 1}
    sites = set(base["log"])
    ks = list(range(1, n0 + 1))
    plans = [(k,) for k in ks]
    if bound >= 2:
        plans += list(itertools.combinations(ks, 2))
    for plan_ in plans:
        for exc_name in (FAULTS if len(plan_) == 1 else ["ValueError"]):
            r = _run_once(hname, lazy, plan_, exc_name)
            execs += 1
            outcomes[r["outcome"]] = outcomes.get(r["outcome"], 0) + 1
            for v in _judge(hname, lazy, r, base["outcome"]):
                viol.append(v)
            # a fault can open new invocations beyond n0 (e.g. retries); explore them once
            if r["n"] > n0 and len(plan_) == 1:
                for k2 in range(n0 + 1, r["n"] + 1):
                    r2 = _run_once(hname, lazy, plan_ + (k2,), exc_name)
                    execs += 1
                    for v in _judge(hname, lazy, r2, base["outcome"]):
                        viol.append(v)
    uniq = {}
    for clause, key, detail in viol:
        uniq.setdefault((clause, key), {"clause": clause, "key": key, "detail": detail})
    return {"viol": list(uniq.values()), "states": execs, "transitions": execs, "execs": execs, "nontrivial": True,
            "nontrivial_n": execs - 1, "outcome": f"fault:{hname}:" + "/".join(sorted(outcomes)),
            "counters": {"callback_invocations_baseline": n0, "callback_sites": len(sites)}}


# ---------------------------------------------------------------------------------------------
def plan(tier, seed):
    cases = []
    tc = ((1, 2), (2, 1))
    if tier != "quick":
        # (the parser-enabled alphabet is a superset of the plain one: in the quick tier the plain space would be evaluated twice)
        for c in espace.plan_shards(tier, parsers=False, quick_pairs=(), thorough_combos=tc):
            cases.append(dict(c, part="A", backend="pandas"))
    for c in espace.plan_shards(tier, parsers=True, quick_pairs=("frame",) if tier == "quick" else (), thorough_combos=tc):
        cases.append(dict(c, part="A", backend="pandas"))
    for c in espace.plan_shards(tier, parsers=True, bases=["frame", "column", "column_str", "frame_parsing"], quick_pairs=(), thorough_combos=tc):
        cases.append(dict(c, part="A", backend="polars"))
    cases.append({"part": "nonframe"})
    bound = 1 if tier == "quick" else 2
    for h in HARNESSES:
        for lazy in (False, True):
            cases.append({"part": "B", "harness": h, "lazy": lazy, "bound": bound})
    return {"cases": cases, "exhaustive": True,
            "bounds": {"A": dict(espace.BOUNDS_TEXT, tier=tier), "B.fault_bound": bound, "B.harnesses": HARNESSES,
                       "B.exception_classes": list(FAULTS), "nonframe_args": NON_FRAMES},
            "rule": "A: state = distinct (schema, table) pair per backend, outcome class must be in the documented channel; "
                    "non-trivial = validation did not simply succeed. B: one execution per (harness, lazy, fault position set, "
                    "exception class); every callback invocation of the fault-free run is a choice point; non-trivial = a fault "
                    "was injected"}


def run_case(case):
    if case["part"] == "A":
        return espace.run_shard(case, _OA[case["backend"]])
    if case["part"] == "nonframe":
        return _non_frame_case(case)
    return _fault_case(case)
