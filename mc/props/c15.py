"""C15 — schema transformations mirror the corresponding dataframe transformations.

Explicit-state exploration of transformation *programs*: add_columns, remove_columns,
select_columns, rename_columns, update_column(s) (each updatable attribute), set_index
(drop / append), reset_index (level / drop), with arguments drawn from the schema's own column /
level names plus one absent name; programs of length <= 2 (thorough 3) from seed schemas whose
components carry EVERY attribute at a non-default value; pandas and polars.
State = fingerprint of the derived schema (programs reaching equal schemas are merged, and the
schemas reached by different routes are compared).
Oracle per step:
  receiver_unchanged     fingerprint(receiver) identical after the call; result shares no mutable part
  attributes_preserved   every attribute of every surviving component that the op does not name is
                         equal before and after (attribute by attribute)
  commutes_with_frames   accept(S, D) => accept(op(S), op_df(D)) on probe frames
  inverse_laws           remove(add) / rename back / reset(set) / select all give back an equal schema
  invalid_requests       raise SchemaInitError / ValueError and leave the receiver untouched
"""
from __future__ import annotations

import copy
import itertools
import json
import warnings

from mc.ref import fingerprint as FP

PROPERTY = "C15"
LEVEL = "model_checking"
ASSUMPTIONS = ["attribute equality is structural (fingerprint of the attribute value)"]

COMPONENT_ATTRS = ["dtype", "checks", "parsers", "nullable", "unique", "report_duplicates", "coerce", "required", "regex", "title",
                   "description", "default", "metadata", "drop_invalid_rows"]
INDEX_ATTRS = ["dtype", "checks", "parsers", "nullable", "unique", "report_duplicates", "coerce", "title", "description", "default",
               "metadata", "drop_invalid_rows"]


def _strip(s):
    return s.str.strip()


def build_seed(name):
    import pandas as pd
    import pandera as pa

    if name == "pandas_rich":
        s = pa.DataFrameSchema(
            {"a": pa.Column(int, pa.Check.ge(0), nullable=False, unique=True, coerce=True, required=True, title="title a", description="desc a",
                            default=0, metadata={"k": 1}, report_duplicates="exclude_first", drop_invalid_rows=True),
             "b": pa.Column(str, [pa.Check.str_length(1, 3)], nullable=True, title="title b", description="desc b", metadata={"k": 2},
                            parsers=pa.Parser(_strip), default="x", report_duplicates="exclude_last", drop_invalid_rows=True, coerce=True),
             "c": pa.Column(float, pa.Check.le(9.5), required=False, nullable=True, title="title c", description="desc c", default=1.5,
                            metadata={"k": 3}, drop_invalid_rows=True)},
            index=pa.Index(int, pa.Check.ge(0), name="idx", title="title i", description="desc i", unique=True, coerce=True, metadata={"k": 4},
                           report_duplicates="exclude_first", default=0, drop_invalid_rows=True),
            strict=True, ordered=False, name="seed", title="schema title", description="schema desc", metadata={"s": 1}, coerce=False,
            unique=None, report_duplicates="exclude_last", add_missing_columns=False, drop_invalid_rows=True, unique_column_names=True,
            checks=pa.Check(lambda df: df["a"] >= 0, name="framecheck") if False else None)
        frame = pd.DataFrame({"a": [1, 2], "b": ["x", "yy"], "c": [1.5, 2.5]}, index=pd.Index([10, 20], name="idx"))
        return s, frame
    if name == "pandas_multiindex":
        s = pa.DataFrameSchema(
            {"a": pa.Column(int, pa.Check.ge(0), title="ta", description="da", metadata={"m": 1}, default=0, nullable=False),
             "b": pa.Column(str, nullable=True, title="tb", metadata={"m": 2})},
            index=pa.MultiIndex([pa.Index(str, pa.Check.str_length(1, 2), name="k1", title="t1", description="d1", metadata={"m": 3}, unique=False),
                                 pa.Index(int, pa.Check.ge(0), name="k2", title="t2", description="d2", metadata={"m": 4}, nullable=False)]),
            strict=False, name="mi", title="T", description="D", metadata={"s": 2})
        frame = pd.DataFrame({"a": [1, 2], "b": ["x", "y"]}, index=pd.MultiIndex.from_arrays([["p", "q"], [1, 2]], names=["k1", "k2"]))
        return s, frame
    if name == "pandas_regex":
        s = pa.DataFrameSchema(
            {"a_.*": pa.Column(int, pa.Check.ge(0), regex=True, title="tr", description="dr", metadata={"r": 1}, nullable=False),
             "b": pa.Column(str, required=False, title="tb", default="z", metadata={"r": 2})}, name="rx")
        frame = pd.DataFrame({"a_1": [1, 2], "a_2": [3, 4], "b": ["x", "y"]})
        return s, frame
    if name == "polars_rich":
        import polars as pl
        import pandera.polars as pp

        s = pp.DataFrameSchema(
            {"a": pp.Column(int, pa.Check.ge(0), nullable=False, unique=True, coerce=True, required=True, title="title a", description="desc a",
                            default=0, metadata={"k": 1}, drop_invalid_rows=True),
             "b": pp.Column(str, pa.Check.str_length(1, 3), nullable=True, title="title b", description="desc b", metadata={"k": 2}, default="x"),
             "c": pp.Column(float, required=False, nullable=True, title="title c", metadata={"k": 3})},
            strict=True, name="pseed", title="schema title", description="schema desc", metadata={"s": 1})
        frame = pl.DataFrame({"a": [1, 2], "b": ["x", "yy"], "c": [1.5, 2.5]})
        return s, frame
    raise AssertionError(name)


SEEDS = ["pandas_rich", "pandas_multiindex", "pandas_regex", "polars_rich"]

UPDATES = [("nullable", True), ("unique", False), ("coerce", False), ("required", False), ("title", "new title"), ("description", "new desc"),
           ("default", None), ("metadata", {"new": 1}), ("checks", None), ("dtype", float), ("report_duplicates", "all"), ("drop_invalid_rows", False)]


def _ops(schema, is_polars):
    """applicable op descriptors for the current schema"""
    import pandera as pa

    cols = list(schema.columns)
    ops = []
    newcol = "zz"
    ops.append(("add_columns", newcol))
    for c in cols:
        ops.append(("remove_columns", c))
        ops.append(("select_columns", c))
        ops.append(("rename_columns", c))
        for attr, val in UPDATES:
            if is_polars and attr in ("report_duplicates",):
                continue
            ops.append(("update_column", c, attr))
        for attr, val in UPDATES:
            if is_polars and attr in ("report_duplicates",):
                continue
            ops.append(("update_columns", c, attr))   # the plural method rebuilds the column through another code path
    ops.append(("select_all",))
    ops.append(("remove_columns", "__absent__"))
    ops.append(("rename_columns", "__absent__"))
    ops.append(("update_column", "__absent__", "nullable"))
    ops.append(("select_columns", "__absent__"))
    if cols:
        ops.append(("update_column_name", cols[0]))
    if not is_polars:
        for c in cols:
            if not getattr(schema.columns[c], "regex", False):
                ops.append(("set_index", c, False, True))   # drop=True (default), append False
                ops.append(("set_index", c, True, True))    # append=True
                ops.append(("set_index", c, False, False))  # drop=False
        ops.append(("set_index", "__absent__", False, True))
        if schema.index is not None:
            ops.append(("reset_index", None, False))
            ops.append(("reset_index", None, True))
            names = getattr(schema.index, "names", [schema.index.name])
            for nm in names:
                ops.append(("reset_index", nm, False))
            ops.append(("reset_index", "__absent__", False))
        else:
            ops.append(("reset_index", None, False))
    return ops


def _apply(schema, op, is_polars):
    import pandera as pa

    k = op[0]
    Col = __import__("pandera.polars").polars.Column if is_polars else pa.Column
    if k == "add_columns":
        return schema.add_columns({op[1]: Col(int, pa.Check.ge(0), title="added", nullable=True)})
    if k == "remove_columns":
        return schema.remove_columns([op[1]])
    if k == "select_columns":
        return schema.select_columns([op[1]])
    if k == "select_all":
        return schema.select_columns(list(schema.columns))
    if k == "rename_columns":
        return schema.rename_columns({op[1]: op[1] + "_renamed"})
    if k == "update_column":
        val = dict(UPDATES)[op[2]] if op[2] in dict(UPDATES) else True
        return schema.update_column(op[1], **{op[2]: val})
    if k == "update_columns":
        val = dict(UPDATES)[op[2]] if op[2] in dict(UPDATES) else True
        return schema.update_columns({op[1]: {op[2]: val}})
    if k == "update_column_name":
        return schema.update_column(op[1], name="other")
    if k == "set_index":
        return schema.set_index([op[1]], drop=op[3], append=op[2])
    if k == "reset_index":
        return schema.reset_index(level=None if op[1] is None else [op[1]], drop=op[2])
    raise AssertionError(op)


def _apply_frame(frame, op, is_polars):
    """the corresponding dataframe transformation (None when there is none / not applicable)"""
    k = op[0]
    try:
        if is_polars:
            import polars as pl

            if k == "add_columns":
                return frame.with_columns(pl.lit(1).cast(pl.Int64).alias(op[1]))
            if k == "remove_columns":
                return frame.drop(op[1])
            if k == "select_columns":
                return frame.select([op[1]])
            if k == "select_all":
                return frame
            if k == "rename_columns":
                return frame.rename({op[1]: op[1] + "_renamed"})
            if k in ("update_column", "update_columns"):
                return frame if op[2] in ("nullable", "title", "description", "metadata", "unique", "required", "default", "checks") else None
            return None
        if k == "add_columns":
            return frame.assign(**{op[1]: 1})
        if k == "remove_columns":
            return frame.drop(columns=[c for c in frame.columns if c == op[1]])
        if k == "select_columns":
            return frame[[op[1]]] if op[1] in frame.columns else None
        if k == "select_all":
            return frame
        if k == "rename_columns":
            return frame.rename(columns={op[1]: op[1] + "_renamed"})
        if k in ("update_column", "update_columns"):
            return frame if op[2] in ("nullable", "title", "description", "metadata", "required", "checks", "report_duplicates", "drop_invalid_rows") else None
        if k == "set_index":
            return frame.set_index([op[1]], drop=op[3], append=op[2])
        if k == "reset_index":
            return frame.reset_index(level=None if op[1] is None else [op[1]], drop=op[2])
    except Exception:  # noqa
        return None
    return None


def _attrs(comp, names):
    out = {}
    for a in names:
        if hasattr(comp, a):
            out[a] = FP.fingerprint(getattr(comp, a))
    return out


def _accept(schema, frame):
    import pandera as pa

    try:
        with warnings.catch_warnings():
            warnings.simplefilter("ignore")
            schema.validate(frame.copy() if hasattr(frame, "copy") else frame.clone(), lazy=True)
        return True
    except (pa.errors.SchemaError, pa.errors.SchemaErrors):
        return False
    except Exception:  # noqa
        return None


def _j(x):
    return json.dumps(x, sort_keys=True, default=str)


def _public_view(schema, sort_columns=False):
    """the schema as its public attributes (what a user can observe), for the inverse laws"""
    cols = [(k, _attrs(v, COMPONENT_ATTRS + ["name"])) for k, v in schema.columns.items()]
    if sort_columns:
        cols = sorted(cols, key=lambda kv: str(kv[0]))
    idx = schema.index
    if idx is None:
        pidx = None
    else:
        comps = getattr(idx, "indexes", [idx])
        pidx = [_attrs(i, INDEX_ATTRS + ["name"]) for i in comps]
    return {"columns": cols, "index": pidx, "frame": _frame_attrs(schema)}


def _frame_attrs(schema):
    names = ["strict", "ordered", "name", "title", "description", "metadata", "coerce", "unique_column_names", "add_missing_columns",
             "drop_invalid_rows", "report_duplicates", "dtype", "checks", "parsers"]
    return _attrs(schema, names)


def _step(seed, schema, frame, op, is_polars, add):
    """apply op to schema (and frame); check all per-step clauses; -> (new schema | None, new frame | None)"""
    import pandera as pa

    fp0 = FP.fingerprint(schema)
    opname = op[0] + (":" + str(op[2]) if op[0] in ("update_column", "update_columns") else "") + \
        (":append" if op[0] == "set_index" and op[2] else "") + (":keep" if op[0] == "set_index" and not op[3] else "") + \
        (":drop" if op[0] == "reset_index" and op[2] else "") + (":level" if op[0] == "reset_index" and op[1] not in (None, "__absent__") else "")
    invalid = "__absent__" in op or op[0] == "update_column_name" or (op[0] == "reset_index" and schema.index is None)
    try:
        with warnings.catch_warnings():
            warnings.simplefilter("ignore")
            res = _apply(schema, op, is_polars)
        err = None
    except (pa.errors.SchemaInitError, ValueError) as e:
        res, err = None, e
    except Exception as e:  # noqa
        res, err = None, e
        add("invalid_requests" if invalid else "op_runs", f"{seed}:{opname}:{type(e).__name__}", f"{op}: {e!r}"[:300])
    if FP.fingerprint(schema) != fp0:
        d = FP.diff(fp0, FP.fingerprint(schema))
        add("receiver_unchanged", f"{seed}:{opname}:{'|'.join(sorted({x.split(':')[0].rsplit('.', 1)[-1] for x in d[:3]}))}", f"{op}: {d}")
    if invalid:
        if res is not None:
            add("invalid_requests", f"{seed}:{opname}:accepted", f"{op} returned a schema instead of raising")
        return None, None
    if res is None:
        if err is not None and isinstance(err, (pa.errors.SchemaInitError, ValueError)):
            add("op_runs", f"{seed}:{opname}:{type(err).__name__}", f"{op}: {err!r}"[:300])
        return None, None
    if res is schema:
        add("receiver_unchanged", f"{seed}:{opname}:returned_receiver", str(op))
    # attribute preservation -------------------------------------------------------------------
    named = set()
    if op[0] in ("update_column", "update_columns"):
        named = {op[2]}
    before_cols, after_cols = schema.columns, res.columns
    prior_names = [] if schema.index is None else list(getattr(schema.index, "names", [schema.index.name]))
    rename = {op[1]: op[1] + "_renamed"} if op[0] == "rename_columns" else {}
    for cname, col in before_cols.items():
        newname = rename.get(cname, cname)
        if op[0] == "add_columns" and cname == op[1]:
            continue   # add_columns with an existing key replaces that column: it is the component the operation names
        if op[0] == "reset_index" and not op[2] and cname in prior_names and (op[1] is None or op[1] == cname):
            continue   # the level is re-inserted under a name that is already a column (after set_index(drop=False)): pandas itself
            #            refuses this ("cannot insert a, already exists"), the schema-side outcome is not specified
        if newname in after_cols:
            b, a = _attrs(col, COMPONENT_ATTRS), _attrs(after_cols[newname], COMPONENT_ATTRS)
            touched = named if (op[0] in ("update_column", "update_columns") and cname == op[1]) else set()
            lost = sorted(k for k in b if k not in touched and b[k] != a.get(k))
            if lost:
                add("attributes_preserved", f"{seed}:{opname}:column:{'+'.join(lost)}", f"{op}: column {cname}: {[(k, b[k], a.get(k)) for k in lost][:3]}"[:500])
    if op[0] in ("update_column", "update_columns") and op[1] in after_cols and op[2] in dict(UPDATES):
        want = dict(UPDATES)[op[2]]
        got = getattr(after_cols[op[1]], op[2], None)
        if op[2] == "checks":
            ok_ = list(got or []) == list(want or [])
        elif op[2] == "dtype":
            ok_ = (got is None) == (want is None) and (want is None or "float" in str(got).lower())
        else:
            ok_ = FP.fingerprint(got) == FP.fingerprint(want)
        if not ok_:
            add("update_applied", f"{seed}:{opname}", f"{op}: requested {op[2]}={want!r}, the new schema has {got!r}")
    if op[0] == "set_index" and op[1] in prior_names:
        pass   # the index already had a level of that name (earlier set_index(drop=False)): which level came from the column is ambiguous
    elif op[0] == "set_index":
        moved = before_cols[op[1]]
        idx = res.index
        target = None
        if idx is not None:
            if hasattr(idx, "indexes"):
                target = next((i for i in idx.indexes if i.name == op[1]), None)
            elif idx.name == op[1]:
                target = idx
        if target is None:
            add("attributes_preserved", f"{seed}:{opname}:index_component_missing", str(op))
        else:
            b, a = _attrs(moved, INDEX_ATTRS), _attrs(target, INDEX_ATTRS)
            lost = sorted(k for k in b if b[k] != a.get(k))
            if lost:
                add("attributes_preserved", f"{seed}:{opname}:to_index:{'+'.join(lost)}", f"{op}: {[(k, b[k], a.get(k)) for k in lost][:3]}"[:500])
    if op[0] == "reset_index" and not op[2] and schema.index is not None:
        comps = getattr(schema.index, "indexes", [schema.index])
        for ic in comps:
            if op[1] is not None and ic.name != op[1]:
                continue
            if ic.name in after_cols:
                b, a = _attrs(ic, INDEX_ATTRS), _attrs(after_cols[ic.name], INDEX_ATTRS)
                lost = sorted(k for k in b if b[k] != a.get(k))
                if lost:
                    add("attributes_preserved", f"{seed}:{opname}:to_column:{'+'.join(lost)}", f"{op}: {[(k, b[k], a.get(k)) for k in lost][:3]}"[:500])
            else:
                add("attributes_preserved", f"{seed}:{opname}:column_missing", str(op))
    if op[0] == "set_index" and op[2] and schema.index is not None and hasattr(schema.index, "indexes") and hasattr(res.index, "indexes"):
        # appending to an existing MultiIndex: its own options and its existing levels are untouched properties
        def _mi_opts(ix):
            return {k: FP.fingerprint(v) for k, v in vars(ix).items() if k in ("_coerce", "strict", "name", "ordered", "unique", "_unique")}

        b, a = _mi_opts(schema.index), _mi_opts(res.index)
        lost = sorted(k for k in b if b[k] != a.get(k))
        if lost:
            add("attributes_preserved", f"{seed}:{opname}:multiindex_options:{'+'.join(lost)}", f"{op}: {[(k, b[k], a.get(k)) for k in lost]}"[:400])
        for old_level, new_level in zip(schema.index.indexes, res.index.indexes):
            if FP.fingerprint(old_level) != FP.fingerprint(new_level):
                add("attributes_preserved", f"{seed}:{opname}:existing_level_changed", f"{op}: level {old_level.name}")
                break
    if op[0] not in ("set_index", "reset_index") and schema.index is not None and res.index is not None:
        if FP.fingerprint(schema.index) != FP.fingerprint(res.index):
            add("attributes_preserved", f"{seed}:{opname}:index_changed", str(op))
    b, a = _frame_attrs(schema), _frame_attrs(res)
    lost = sorted(k for k in b if b[k] != a.get(k))
    if lost:
        add("attributes_preserved", f"{seed}:{opname}:frame:{'+'.join(lost)}", f"{op}: {[(k, b[k], a.get(k)) for k in lost][:3]}"[:500])
    # commuting square -------------------------------------------------------------------------
    newframe = _apply_frame(frame, op, is_polars) if frame is not None else None
    if op[0] == "set_index" and op[2] and schema.index is None:
        newframe = None   # appending to an unconstrained index: the schema says nothing about the existing level
    if op[0] in ("rename_columns", "select_columns", "remove_columns") and getattr(schema.columns.get(op[1]), "regex", False):
        newframe = None   # a regex column has no single frame column to rename / select / drop
    if frame is not None and newframe is not None:
        acc0 = _accept(schema, frame)
        if acc0 is True:
            acc1 = _accept(res, newframe)
            if acc1 is not True:
                add("commutes_with_frames", f"{seed}:{opname}:{acc1}", f"{op}: S accepts D but op(S) does not accept op(D)")
    # inverse laws -----------------------------------------------------------------------------
    try:
        with warnings.catch_warnings():
            warnings.simplefilter("ignore")
            back = None
            if op[0] == "add_columns" and op[1] not in schema.columns:
                back = res.remove_columns([op[1]])
            elif op[0] == "rename_columns":
                back = res.rename_columns({op[1] + "_renamed": op[1]})
            elif op[0] == "set_index" and op[3] and not op[2] and schema.index is None:
                back = res.reset_index()
            elif op[0] == "select_all":
                back = res
        if back is not None:
            sortc = op[0] == "set_index"   # reset puts the column back at the end
            v_back, v_orig = _public_view(back, sortc), _public_view(schema, sortc)
            if v_back != v_orig:
                d = FP.diff(v_orig, v_back)
                add("inverse_laws", f"{seed}:{opname}:{'|'.join(sorted({x.split(':')[0].rsplit('.', 1)[-1] for x in d[:3]}))}", f"{op}: {d[:3]}"[:500])
    except Exception as e:  # noqa
        add("inverse_laws", f"{seed}:{opname}:{type(e).__name__}", repr(e)[:200])
    return res, newframe


def _explore(seed, depth, shard=(0, 1)):
    viol = {}

    def add(clause, key, detail):
        viol.setdefault((clause, key), detail)

    is_polars = seed.startswith("polars")
    s0, f0 = build_seed(seed)
    seen = {_j(FP.fingerprint(s0)): ()}
    frontier = [((), )]
    transitions = 0
    level = [()]
    routes = {}
    for d in range(depth):
        nxt = []
        for prog in level:
            # rebuild the state reached by prog on fresh objects
            s, f = build_seed(seed)
            ok = True
            for op in prog:
                s, f2 = _step(seed, s, f, op, is_polars, lambda *a: None)
                f = f2
                if s is None:
                    ok = False
                    break
            if not ok:
                continue
            for op in _ops(s, is_polars):
                s_live = copy.deepcopy(s)
                transitions += 1
                res, nf = _step(seed, s_live, f, op, is_polars, lambda c, k, d, prog=prog: add(c, k, f"after {prog}: {d}"))
                if res is None:
                    continue
                key = _j(FP.fingerprint(res))
                if key not in seen:
                    seen[key] = prog + (op,)
                    nxt.append(prog + (op,))
        level = nxt
        if d == 0 and shard[1] > 1:
            # deeper levels are partitioned over shards by the first operation of the program
            level = [p for i, p in enumerate(level) if i % shard[1] == shard[0]]
    return viol, len(seen), transitions


def plan(tier, seed):
    depth = 2 if tier == "quick" else 3
    nsh = 1 if tier == "quick" else 16
    return {"cases": [{"seed": s, "depth": depth, "shard": [i, nsh]} for s in SEEDS for i in range(nsh)], "exhaustive": True,
            "bounds": {"program_length": depth, "seeds": SEEDS, "update_attributes": [u[0] for u in UPDATES]},
            "rule": "BFS over transformation programs; state = fingerprint of the derived schema (deduplicated); transitions = op "
                    "applications, each checked for receiver immutability, attribute preservation, the commuting square on the probe "
                    "frame, inverse laws and error behaviour; non-trivial = every transition"}


def run_case(case):
    viol, states, transitions = _explore(case["seed"], case["depth"], tuple(case.get("shard", (0, 1))))
    v = [{"clause": c, "key": k, "detail": d[:700]} for (c, k), d in viol.items()]
    return {"viol": v, "states": states, "transitions": transitions, "execs": transitions, "nontrivial": True,
            "nontrivial_n": transitions, "outcome": f"{case['seed']}:states={states}"}
