"""C01 — validation verdict equals the declared schema semantics (pandas).

Small-scope exhaustive exploration of (schema edits x data edits) around conforming bases; oracle =
three-valued reference model (mc/ref/semantics.py).  Only ACCEPT / REJECT answers are compared.
On ACCEPT without parsing options the returned object must equal the input (values, dtypes,
labels, index) .
"""
from __future__ import annotations

from mc import observe as O
from mc.props import espace
from mc.ref import semantics as R

PROPERTY = "C01"
LEVEL = "model_checking"
ASSUMPTIONS = [
    "oracle = reference model written from the documentation; cases it marks UNSPECIFIED are executed but not judged",
]


def plan(tier, seed):
    cases = espace.plan_shards(tier, parsers=False)
    cases += espace.plan_shards(tier, parsers=False, bases=["frame_categorical"], quick_pairs=())
    return {"cases": cases, "exhaustive": True,
            "bounds": dict(espace.BOUNDS_TEXT, tier=tier),
            "rule": "each case = one shard of the edit space; state = one distinct (schema, table) pair (canonical JSON); "
                    "non-trivial = reference verdict is REJECT, or ACCEPT after at least one data edit (the edits did not "
                    "cancel out); transitions = edit applications + one validate call per state"}


def _clauses(cc):
    """-> list of (clause, key-suffix, detail)."""
    ref = R.evaluate(cc["schema"], cc["table"])
    obs = O.validate_pandas(cc["schema"], cc["table"], lazy=False)
    out = []
    want = ref.verdict
    if obs["outcome"] == "leak":
        got = "LEAK"
    elif O.accepted(obs):
        got = "ACCEPT"
    elif O.rejected(obs):
        got = "REJECT"
    else:
        got = obs["outcome"]
    if want in ("ACCEPT", "REJECT"):
        if got == "LEAK":
            # a leaked internal exception is C06's business; for C01 it only matters that the verdict
            # direction is right: a leak on data that must be accepted is a wrong verdict.
            if want == "ACCEPT":
                out.append(("verdict", f"ACCEPT->LEAK:{obs.get('exc')}@{obs.get('where')}", f"ref={ref.summary()} obs={obs.get('msg')}"))
        elif got != want:
            out.append(("verdict", f"{want}->{got}", f"ref={ref.summary()} obs_error={obs.get('error')}"))
    if got == "ACCEPT" and want == "ACCEPT":
        if obs["result"] != obs["input_before"]:
            out.append(("result_equals_input", "differs", f"before={obs['input_before']} result={obs['result']}"))
    return out, ref, got


def oracle(cc):
    cl, ref, got = _clauses(cc)
    viol = []
    for clause, key, detail in cl:
        def still(c2, clause=clause, key=key):
            return any(c == clause and k == key for c, k, _ in _clauses(c2)[0])
        m = espace.minimise(cc, still)
        viol.append({"clause": clause, "key": key + "|" + espace.signature(m), "detail": detail[:1500]})
    nde = len(cc.get("edits", [[], []])[1])
    nontrivial = ref.verdict == "REJECT" or (ref.verdict == "ACCEPT" and nde > 0)
    return viol, nontrivial, f"ref={ref.verdict}/obs={got}"


def run_case(case):
    return espace.run_shard(case, oracle)
