"""C05 — schemas are observationally immutable: no operation leaves hidden state.

Explicit-state exploration of operation histories on one live schema object.
 State        structural fingerprint of the schema's whole object graph (mc/ref/fingerprint.py) plus
              the process configuration.
 Alphabet     ~40 public non-transforming operations (validate pass / eager fail / lazy fail /
              coercible / uncoercible on the schema and on a component stand-alone, coerce_dtype,
              to_yaml / to_json / to_script, statistics, strategy(), str / repr / == / hash, deepcopy,
              pickle, dtypes, get_dtypes, get_metadata) and every transforming method (receiver must
              stay unchanged, result must not alias the receiver's mutable parts).
 Invariants   on every edge: fingerprint(after) == fingerprint(before); and differential: the outcome
              of op2 after op1 on one live object == outcome of op2 on a fresh object (covers state
              the fingerprint cannot see).  If every op is a self-loop the reachable graph is one
              state, which is an inductive argument for histories of every length.
"""
from __future__ import annotations

import copy
import io
import itertools
import json
import pickle
import warnings

from mc.ref import fingerprint as FP
from mc.spec import table as T

PROPERTY = "C05"
LEVEL = "model_checking"
ASSUMPTIONS = ["hidden state outside the schema object graph, the configuration and MODEL_CACHE is only covered by the differential (outcome) oracle"]

_W = {}


def init_worker():
    import pandas as pd
    import pandera as pa

    pa.DataFrameSchema({"a": pa.Column(int)}).validate(pd.DataFrame({"a": [1]}))
    pa.SeriesSchema(int).validate(pd.Series([1]))
    try:
        import polars as pl
        import pandera.polars as pp

        pp.DataFrameSchema({"a": pp.Column(int)}).validate(pl.DataFrame({"a": [1]}))
    except Exception:  # noqa
        pass


# ---------------------------------------------------------------------------------------------
# seeds: name -> (schema, frames dict)
def build_seed(name):
    import pandas as pd
    import pandera as pa

    if name == "plain":
        s = pa.DataFrameSchema({"a": pa.Column(int, [pa.Check.ge(0), pa.Check.le(10)]), "b": pa.Column(str, pa.Check.str_length(1, 3))},
                               index=pa.Index(int, name="idx"), name="plain", title="t", description="d")
        ok = pd.DataFrame({"a": [1, 2], "b": ["x", "yy"]}, index=pd.Index([1, 2], name="idx"))
        bad = pd.DataFrame({"a": [-1, 20], "b": ["x", "toolong"]}, index=pd.Index([1, 2], name="idx"))
        coercible = ok.astype({"a": "float64"})
        return s, {"ok": ok, "bad": bad, "coercible": coercible, "uncoercible": pd.DataFrame({"a": ["q", "r"], "b": ["x", "y"]}, index=ok.index)}
    if name == "regex":
        s = pa.DataFrameSchema({"a.*": pa.Column(int, pa.Check.ge(0), regex=True), "b": pa.Column(str, required=False)})
        ok = pd.DataFrame({"a1": [1, 2], "a2": [3, 4]})
        bad = pd.DataFrame({"a1": [1, 2], "a2": [3, -4]})
        return s, {"ok": ok, "bad": bad, "coercible": ok.astype("float64"), "uncoercible": pd.DataFrame({"a1": ["q"], "a2": ["r"]})}
    if name == "multiindex":
        s = pa.DataFrameSchema({"a": pa.Column(int)}, index=pa.MultiIndex([pa.Index(str, name="k1"), pa.Index(int, pa.Check.ge(0), name="k2")]))
        mi = pd.MultiIndex.from_arrays([["p", "q"], [1, 2]], names=["k1", "k2"])
        ok = pd.DataFrame({"a": [1, 2]}, index=mi)
        bad = pd.DataFrame({"a": [1, 2]}, index=pd.MultiIndex.from_arrays([["p", "q"], [1, -2]], names=["k1", "k2"]))
        return s, {"ok": ok, "bad": bad, "coercible": ok.astype("float64"), "uncoercible": pd.DataFrame({"a": ["q", "r"]}, index=mi)}
    if name == "multiindex_coerce_level":
        # one level coerces, the other does not (the MultiIndex's own coerce flag is off): "coerce" read from the MultiIndex is a
        # summary over its levels, not the flag itself
        s = pa.DataFrameSchema({"a": pa.Column(int)}, index=pa.MultiIndex([pa.Index(str, name="k1"), pa.Index(int, pa.Check.ge(0), name="k2", coerce=True)]))
        mi = pd.MultiIndex.from_arrays([["p", "q"], [1, 2]], names=["k1", "k2"])
        ok = pd.DataFrame({"a": [1, 2]}, index=mi)
        bad = pd.DataFrame({"a": [1, 2]}, index=pd.MultiIndex.from_arrays([["p", "q"], [1, -2]], names=["k1", "k2"]))
        # "coercible" only if the NON-coercing level were coerced too: a fresh schema rejects it
        return s, {"ok": ok, "bad": bad, "coercible": pd.DataFrame({"a": [1, 2]}, index=pd.MultiIndex.from_arrays([[7, 8], [1.0, 2.0]], names=["k1", "k2"])),
                   "uncoercible": pd.DataFrame({"a": ["q", "r"]}, index=mi)}
    if name == "frame_dtype":
        s = pa.DataFrameSchema({"a": pa.Column(checks=pa.Check.ge(0)), "b": pa.Column()}, dtype=int, coerce=True)
        ok = pd.DataFrame({"a": [1, 2], "b": [3, 4]})
        bad = pd.DataFrame({"a": [1, -2], "b": [3, 4]})
        return s, {"ok": ok, "bad": bad, "coercible": ok.astype("float64"), "uncoercible": pd.DataFrame({"a": ["q", "r"], "b": [1, 2]})}
    if name == "coerce_all":
        s = pa.DataFrameSchema({"a": pa.Column(int, pa.Check.ge(0), coerce=True, default=0, nullable=False),
                                "b": pa.Column(float, coerce=True, nullable=True), "c": pa.Column(str, coerce=True, required=False)},
                               index=pa.Index(int, coerce=True), coerce=True, strict="filter", add_missing_columns=False, unique=["a"])
        ok = pd.DataFrame({"a": [1, 2], "b": [1.5, None]})
        bad = pd.DataFrame({"a": [1, 1], "b": [1.5, 2.5]})
        return s, {"ok": ok, "bad": bad, "coercible": pd.DataFrame({"a": ["1", "2"], "b": ["1.5", "2"], "z": [0, 0]}),
                   "uncoercible": pd.DataFrame({"a": ["q", "r"], "b": [1.0, 2.0]})}
    if name == "all_checks":
        C = pa.Check
        s = pa.DataFrameSchema({
            "i": pa.Column(int, [C.eq(5), C.ne(4), C.gt(1), C.ge(5), C.lt(9), C.le(5), C.in_range(1, 9), C.isin([5, 6]), C.notin([7])]),
            "s": pa.Column(str, [C.str_matches("^a"), C.str_contains("b"), C.str_startswith("a"), C.str_endswith("c"), C.str_length(1, 5)]),
            "f": pa.Column(float, [C.in_range(0.0, 1.0, include_min=False, include_max=False), C.ge(0.5, ignore_na=False, n_failure_cases=1)]),
        }, checks=[C.ne(-1, raise_warning=True)] if False else [])
        ok = pd.DataFrame({"i": [5, 5], "s": ["abc", "abxc"], "f": [0.5, 0.75]})
        bad = pd.DataFrame({"i": [5, 7], "s": ["abc", "zzz"], "f": [0.5, 2.0]})
        return s, {"ok": ok, "bad": bad, "coercible": ok.astype({"i": "float64"}), "uncoercible": pd.DataFrame({"i": ["q", "r"], "s": ["abc", "abc"], "f": [0.5, 0.5]})}
    if name == "custom_checks":
        s = pa.DataFrameSchema({"a": pa.Column(int, [pa.Check(lambda s: s > 0, name="positive"), pa.Check(lambda x: x < 100, element_wise=True),
                                                     pa.Check(lambda s: s.isin([1, 2, 3]), name="isin")])},
                               checks=pa.Check(lambda df: df["a"] > 0))
        ok = pd.DataFrame({"a": [1, 2]})
        bad = pd.DataFrame({"a": [1, -2]})
        return s, {"ok": ok, "bad": bad, "coercible": ok.astype("float64"), "uncoercible": pd.DataFrame({"a": ["q", "r"]})}
    if name == "datetime_tz_agnostic":
        from pandera.engines import pandas_engine

        s = pa.DataFrameSchema({"t": pa.Column(pandas_engine.DateTime(time_zone_agnostic=True), coerce=True)})
        ok = pd.DataFrame({"t": pd.to_datetime(["2020-01-01", "2020-01-02"]).tz_localize("UTC")})
        bad = pd.DataFrame({"t": ["x", "y"]})
        return s, {"ok": ok, "bad": bad, "coercible": pd.DataFrame({"t": pd.to_datetime(["2020-01-01", "2020-01-02"]).tz_localize("Europe/Berlin")}),
                   "uncoercible": pd.DataFrame({"t": ["x", "y"]})}
    if name == "model_born":
        class M(pa.DataFrameModel):
            a: int = pa.Field(ge=0)
            b: str = pa.Field(str_length={"min_value": 1}, nullable=True)

            class Config:
                strict = True
                coerce = True

            @pa.check("a")
            def even(cls, s):  # noqa
                return s % 2 == 0

        s = M.to_schema()
        ok = pd.DataFrame({"a": [2, 4], "b": ["x", None]})
        bad = pd.DataFrame({"a": [2, 3], "b": ["x", "y"]})
        return s, {"ok": ok, "bad": bad, "coercible": pd.DataFrame({"a": ["2", "4"], "b": ["x", "y"]}),
                   "uncoercible": pd.DataFrame({"a": ["q", "r"], "b": ["x", "y"]}), "model": M}
    if name == "series":
        s = pa.SeriesSchema(int, [pa.Check.ge(0), pa.Check.isin([1, 2, 3])], name="a", index=pa.Index(int), nullable=False, unique=True)
        ok = pd.Series([1, 2], name="a")
        bad = pd.Series([1, 1], name="a")
        return s, {"ok": ok, "bad": bad, "coercible": pd.Series([1.0, 2.0], name="a"), "uncoercible": pd.Series(["q", "r"], name="a")}
    if name == "polars":
        import polars as pl
        import pandera.polars as pp

        s = pp.DataFrameSchema({"a": pp.Column(int, [pa.Check.ge(0), pa.Check.le(10)], coerce=True), "b": pp.Column(str, pa.Check.str_length(1, 3))},
                               strict=True, unique=["a"])
        ok = pl.DataFrame({"a": [1, 2], "b": ["x", "yy"]})
        bad = pl.DataFrame({"a": [-1, 20], "b": ["x", "toolong"]})
        return s, {"ok": ok, "bad": bad, "coercible": pl.DataFrame({"a": ["1", "2"], "b": ["x", "yy"]}),
                   "uncoercible": pl.DataFrame({"a": ["q", "r"], "b": ["x", "y"]})}
    raise AssertionError(name)


SEEDS = ["plain", "regex", "multiindex", "multiindex_coerce_level", "frame_dtype", "coerce_all", "all_checks", "custom_checks", "datetime_tz_agnostic",
         "model_born", "series", "polars"]


# ---------------------------------------------------------------------------------------------
def _snap(x):
    import pandas as pd

    if isinstance(x, (pd.DataFrame, pd.Series, pd.Index)):
        return T.snap_pandas(x)
    try:
        import polars as pl

        if isinstance(x, (pl.DataFrame, pl.LazyFrame)):
            return T.snap_polars(x)
    except ImportError:
        pass
    return repr(x)[:300]


def _val(schema, data, **kw):
    import pandera as pa

    data = copy.deepcopy(data) if not hasattr(data, "clone") else data.clone()
    try:
        return ["ok", _snap(schema.validate(data, **kw))]
    except pa.errors.SchemaErrors as e:
        return ["SchemaErrors", sorted((x.reason_code.name, str(getattr(x.check, "name", x.check))[:50]) for x in e.schema_errors)]
    except pa.errors.SchemaError as e:
        return ["SchemaError", e.reason_code.name if e.reason_code else None, str(getattr(e.check, "name", e.check))[:50]]


def _first_component(schema):
    cols = getattr(schema, "columns", None)
    if isinstance(cols, dict) and cols:
        name = next(iter(cols))
        return cols[name]
    return None


def _component_validate(schema, data):
    comp = _first_component(schema)
    if comp is None or getattr(comp, "regex", False) is True and False:
        return "n/a"
    if comp.name is None:
        return "n/a"
    return _val(comp, data)


def _guard(fn):
    """ops report exceptions as outcomes (an op may legitimately be unsupported for a seed)"""
    def run(schema, frames):
        with warnings.catch_warnings():
            warnings.simplefilter("ignore")
            try:
                return fn(schema, frames)
            except Exception as e:  # noqa
                return ["raised", type(e).__name__, str(e)[:120]]
    return run


def _is_polars(schema):
    return "polars" in type(schema).__module__


def _io(schema, which):
    from pandera.io import pandas_io

    if which == "yaml":
        return schema.to_yaml()
    if which == "json":
        return schema.to_json()
    return pandas_io.to_script(schema)


def _stats(schema):
    from pandera.schema_statistics import pandas as st

    if hasattr(schema, "columns"):
        return json.dumps(FP.fingerprint(st.get_dataframe_schema_statistics(schema)), sort_keys=True, default=str)
    return json.dumps(FP.fingerprint(st.get_series_schema_statistics(schema)), sort_keys=True, default=str)


def _strategy(schema):
    st = schema.strategy(size=2)
    return "built:" + type(st).__name__


def _example(schema):
    import hypothesis

    with warnings.catch_warnings():
        warnings.simplefilter("ignore")
        ex = schema.strategy(size=2)
        # deterministic draw: fixed seed through hypothesis' find-free API
        from hypothesis import HealthCheck, Phase, given, seed, settings

        out = []

        @seed(0)
        @settings(max_examples=1, database=None, phases=[Phase.generate], suppress_health_check=list(HealthCheck), derandomize=False)
        @given(ex)
        def t(x):
            out.append(x)

        t()
        # (the drawn values are C13's business; here only whether synthesis went through -- and what it did to the schema)
        return ["example", bool(out)]


def _hashes(schema):
    items = []
    comps = list(getattr(schema, "columns", {}).values()) if isinstance(getattr(schema, "columns", None), dict) else [schema]
    for c in comps:
        items.append(hash(c.dtype) if getattr(c, "dtype", None) is not None else None)
        for ch in getattr(c, "checks", []):
            items.append(hash(ch))
    return len(items)


def _eq_copy(schema):
    return schema == copy.deepcopy(schema)


def _pickle(schema):
    return pickle.loads(pickle.dumps(schema)) == schema


def _alias_free(receiver, result):
    """transformations must not hand out the receiver's own mutable sub-objects"""
    if result is receiver:
        return "returned_receiver_itself"
    rc = getattr(receiver, "columns", None)
    uc = getattr(result, "columns", None)
    if isinstance(rc, dict) and isinstance(uc, dict):
        if rc is uc:
            return "shares_columns_dict"
        mine = {id(v) for v in rc.values()}
        for k, v in uc.items():
            if id(v) in mine:
                return f"shares_column_object"
        mine_checks = {id(ch) for v in rc.values() for ch in getattr(v, "checks", [])}
        for v in uc.values():
            if getattr(v, "checks", None) is not None and any(id(v.checks) == id(w.checks) for w in rc.values()):
                return "shares_checks_list"
    if getattr(receiver, "index", None) is not None and getattr(result, "index", None) is receiver.index:
        return "shares_index_object"
    return "ok"


def _transform(method, *a, **k):
    def run(schema, frames):
        res = getattr(schema, method)(*a, **k)
        return [_alias_free(schema, res), type(res).__name__, sorted(map(str, getattr(res, "columns", {}).keys())) if isinstance(getattr(res, "columns", None), dict) else None]
    return run


def _odd(ok):
    import pandas as pd

    if not isinstance(ok, (pd.DataFrame, pd.Series)):
        return ok
    o = ok.copy()
    if isinstance(o.index, pd.MultiIndex):
        o.index = o.index.set_names([o.index.names[0]] * o.index.nlevels)
        return o
    if isinstance(o, pd.DataFrame) and o.shape[1] >= 1:
        return pd.concat([o, o.iloc[:, :1]], axis=1)
    return o


def _ops_for(seed):
    import pandera as pa

    is_series = seed == "series"
    is_polars = seed == "polars"
    first = {"plain": "a", "regex": "a.*", "multiindex": "a", "multiindex_coerce_level": "a", "frame_dtype": "a", "coerce_all": "a", "all_checks": "i",
             "custom_checks": "a", "datetime_tz_agnostic": "t", "model_born": "a", "polars": "a"}.get(seed)
    ops = {
        "validate_ok": lambda s, f: _val(s, f["ok"]),
        "validate_ok_lazy": lambda s, f: _val(s, f["ok"], lazy=True),
        "validate_bad_eager": lambda s, f: _val(s, f["bad"]),
        "validate_bad_lazy": lambda s, f: _val(s, f["bad"], lazy=True),
        "validate_coercible": lambda s, f: _val(s, f["coercible"]),
        "validate_uncoercible_eager": lambda s, f: _val(s, f["uncoercible"]),
        "validate_uncoercible_lazy": lambda s, f: _val(s, f["uncoercible"], lazy=True),
        "validate_ok_head": lambda s, f: _val(s, f["ok"], head=1),
        # structurally unusual but legal data: repeated MultiIndex level names / a repeated column label, an empty frame
        "validate_odd_eager": lambda s, f: _val(s, _odd(f["ok"])),
        "validate_odd_lazy": lambda s, f: _val(s, _odd(f["ok"]), lazy=True),
        "validate_empty_lazy": lambda s, f: _val(s, f["ok"].iloc[:0] if hasattr(f["ok"], "iloc") else f["ok"].head(0), lazy=True),
        "str": lambda s, f: str(s),
        "repr": lambda s, f: repr(s),
        "eq_deepcopy": lambda s, f: _eq_copy(s),
        "deepcopy": lambda s, f: type(copy.deepcopy(s)).__name__,
        "hash_parts": lambda s, f: _hashes(s),
    }
    if not is_polars:
        ops.update({
            "component_validate_ok": lambda s, f: _component_validate(s, f["ok"]) if not is_series else "n/a",
            "component_validate_bad": lambda s, f: _component_validate(s, f["bad"]) if not is_series else "n/a",
            "coerce_dtype": lambda s, f: _snap(s.coerce_dtype(copy.deepcopy(f["coercible"]))),
            "to_yaml": lambda s, f: _io(s, "yaml"),
            "to_json": lambda s, f: _io(s, "json"),
            "to_script": lambda s, f: _io(s, "script"),
            "statistics": lambda s, f: _stats(s),
            "strategy": lambda s, f: _strategy(s),
            "example": lambda s, f: _example(s),
            "pickle": lambda s, f: _pickle(s),
            "dtypes": lambda s, f: repr(getattr(s, "dtypes", None)) if not is_series else repr(s.dtype),
            "get_metadata": lambda s, f: repr(s.get_metadata()) if hasattr(s, "get_metadata") else "n/a",
        })
        if not is_series:
            ops["get_dtypes"] = lambda s, f: repr(s.get_dtypes(f["ok"]))
    if seed == "model_born":
        ops["model_to_schema"] = lambda s, f: f["model"].to_schema() is not None
        ops["model_validate_ok"] = lambda s, f: _val(f["model"], f["ok"])
        ops["model_validate_bad_lazy"] = lambda s, f: _val(f["model"], f["bad"], lazy=True)
    if not is_series and first is not None:
        newcol = (lambda: __import__("pandera.polars").polars.Column(int)) if is_polars else (lambda: pa.Column(int))
        ops.update({
            "t_add_columns": lambda s, f: _transform("add_columns", {"zz": newcol()})(s, f),
            "t_remove_columns": _transform("remove_columns", [first]),
            "t_update_column": _transform("update_column", first, nullable=True),
            "t_update_columns": _transform("update_columns", {first: {"nullable": True}}),
            "t_rename_columns": _transform("rename_columns", {first: "renamed"}),
            "t_select_columns": _transform("select_columns", [first]),
        })
        if not is_polars:
            ops.update({
                "t_set_index": _transform("set_index", [first]),
                "t_reset_index": _transform("reset_index"),
                "t_reset_index_level_empty": _transform("reset_index", level=[]),
            })
    return {k: _guard(v) for k, v in ops.items()}


def _state(seed, schema, frames):
    st = {"schema": FP.fingerprint(schema), "config": FP.config_state()}
    if seed == "model_born":
        from pandera.api.dataframe import model as mdl

        st["model_cache_has"] = frames["model"] in mdl.MODEL_CACHE
        st["model_schema"] = FP.fingerprint(mdl.MODEL_CACHE.get(frames["model"]))
    return st


def _j(x):
    return json.dumps(x, sort_keys=True, default=str)


def _explore(seed, depth):
    ops = _ops_for(seed)
    names = sorted(ops)
    viol = {}
    # fresh outcomes
    fresh = {}
    states = set()
    transitions = 0
    for op in names:
        s, fr = build_seed(seed)
        st0 = _state(seed, s, fr)
        states.add(_j(st0))
        out = ops[op](s, fr)
        st1 = _state(seed, s, fr)
        transitions += 1
        fresh[op] = _j(out)
        if st1 != st0:
            d = FP.diff(st0, st1)
            states.add(_j(st1))
            where = "|".join(sorted({x.split(":")[0].rsplit(".", 1)[-1] for x in d[:4]}))
            viol.setdefault(("fingerprint_unchanged", f"{seed}:{op}:{where}"), f"op={op} diff={d}")
        if out and isinstance(out, list) and out and out[0] in ("returned_receiver_itself", "shares_columns_dict", "shares_column_object",
                                                                  "shares_checks_list", "shares_index_object"):
            viol.setdefault(("transform_result_aliases_receiver", f"{seed}:{op}:{out[0]}"), f"{out}")
    # histories: every op2 after every history h of length depth-1, compared with op2 on a fresh object
    for h in itertools.product(names, repeat=depth - 1):
        s, fr = build_seed(seed)
        st0 = _state(seed, s, fr)
        for op in h:
            ops[op](s, fr)
        for op2 in names:
            # the differential oracle is for state the fingerprint cannot see: when the fingerprint has
            # already moved (reported once, under fingerprint_unchanged, against the op that moved it)
            # a different outcome is its consequence, not a second finding
            visible_change = _state(seed, s, fr) != st0
            out = _j(ops[op2](s, fr))
            transitions += 1
            if out != fresh[op2] and not visible_change:
                viol.setdefault(("outcome_history_independent", f"{seed}:{h[-1]}>{op2}"),
                                f"after {h}: {out[:300]} fresh: {fresh[op2][:300]}")
        st1 = _state(seed, s, fr)
        if st1 != st0:
            states.add(_j(st1))
    return viol, len(states), transitions, len(names)


def plan(tier, seed):
    depth = 2 if tier == "quick" else 3
    cases = [{"seed": s, "depth": depth} for s in SEEDS]
    return {"cases": cases, "exhaustive": True,
            "bounds": {"history_depth": depth, "seeds": SEEDS},
            "rule": "one case = one seed schema; BFS over operation histories: every op on a fresh object (edge must be a self-loop on "
                    "the fingerprint) and every history of length <= depth on one live object with every op's outcome compared "
                    "with its outcome on a fresh object; states = distinct fingerprints reached, transitions = operations executed; "
                    "non-trivial = every case (each history runs >= 1 operation that validates or serialises)"}


def run_case(case):
    viol, states, transitions, nops = _explore(case["seed"], case["depth"])
    v = [{"clause": c, "key": k, "detail": d[:1500]} for (c, k), d in viol.items()]
    return {"viol": v, "states": states, "transitions": transitions, "execs": transitions, "nontrivial": True,
            "nontrivial_n": transitions, "outcome": f"{case['seed']}:states={states}", "counters": {"ops": nops}}
