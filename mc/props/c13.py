"""C13 — every synthesised example satisfies the schema that produced it.

Stateless choice-point exploration of hypothesis data generation.  The nondeterminism of a
`schema.strategy(size=n)` draw is the sequence of *primitive draws* hypothesis makes
(draw_integer / draw_float / draw_string / draw_boolean / draw_bytes).  A custom
`PrimitiveProvider` (Scripted) answers each of them from a small finite menu derived from the
draw's own constraints (bounds, shrink target, +-1, boundary; both booleans; shortest strings over
the first two allowed characters), so pandera's and hypothesis' real generation code runs while
the environment answers are owned by the explorer:

  default answer  = menu entry rotating with the number of earlier draws of the same signature
                    (so `unique=True` is satisfiable on the default path);
  deviation       = any other menu entry at one position;
  exploration     = all answer sequences with <= d deviations (iterative: 0, then 1, then 2), DFS with
                    prefix replay; a replay whose prefix differs from its parent's log is a hard error.

An execution that ends INVALID / unsatisfied (filters exhausted) produced no example: counted, not judged.
Oracle: every produced example passes `schema.validate` (Index / MultiIndex examples are validated as the index of an empty frame) and has the
requested size; a schema whose strategy raises at construction must raise a pandera / hypothesis definition error
(reports unsatisfiable / unsupported schemas instead of emitting data).
"""
from __future__ import annotations

import json
import math
import warnings

from mc.spec import edits as E
from mc.spec import schema as S

PROPERTY = "C13"
LEVEL = "model_checking"
ASSUMPTIONS = [
    "answers outside the per-draw menus (mc/props/c13.py:Scripted) are not explored: the check decides the property for all answer "
    "sequences within the deviation bound over those menus, not for all random draws",
    "hypothesis internals used: ConjectureData(provider=...), BuildContext, PrimitiveProvider (hypothesis 6.168)",
]


class Divergence(Exception):
    pass


def _provider_class():
    from hypothesis.internal.conjecture.providers import PrimitiveProvider

    class Scripted(PrimitiveProvider):
        lifetime = "test_case"

        def __init__(self, cd, *, script, log, policy=0):
            super().__init__(cd)
            self.script, self.log, self.counters, self.policy = script, log, {}, policy

        def _pick(self, kind, sig, menu):
            pos = len(self.log)
            c = self.counters.get((kind, sig), 0)
            self.counters[(kind, sig)] = c + 1
            default = (c + self.policy) % len(menu)   # policy shifts the whole default path (a second starting point)
            alt = self.script.get(pos)
            if alt is None:
                idx = default
            else:
                alts = [i for i in range(len(menu)) if i != default]
                if alt >= len(alts):
                    raise Divergence(f"position {pos}: script asks for alternative {alt}, menu has {len(alts)}")
                idx = alts[alt]
            self.log.append((kind, len(menu), repr(menu[idx])[:24]))
            return menu[idx]

        def draw_boolean(self, p=0.5):
            if p <= 0:
                return False
            if p >= 1:
                return True
            return self._pick("bool", round(p, 3), [False, True])

        def draw_integer(self, min_value=None, max_value=None, *, weights=None, shrink_towards=0):
            def clamp(v):
                if min_value is not None:
                    v = max(v, min_value)
                if max_value is not None:
                    v = min(v, max_value)
                return v

            st = clamp(shrink_towards)
            cands = [st, clamp(st + 1), clamp(st - 1), clamp(st + 2)]
            cands += [min_value, clamp(min_value + 1)] if min_value is not None else [clamp(st - 1000)]
            cands += [max_value, clamp(max_value - 1)] if max_value is not None else [clamp(st + 1000)]
            return self._pick("int", (min_value, max_value), list(dict.fromkeys(cands)))

        def draw_float(self, *, min_value=-math.inf, max_value=math.inf, allow_nan=True, smallest_nonzero_magnitude=0.0):
            def ok(v):
                if v != v:
                    return allow_nan
                if not min_value <= v <= max_value:
                    return False
                if v != 0 and abs(v) < smallest_nonzero_magnitude:
                    return False
                return True

            cands = [0.0, 1.0, -1.0, 0.5, 1.5, 2.0, -2.0, 2.5, 3.5, 1000.0, -1000.0]
            for b in (min_value, max_value):
                if math.isfinite(b):
                    cands += [b, b + 1, b - 1, b + 0.5, b - 0.5]
            if allow_nan:
                cands.append(math.nan)
            menu = []
            for v in cands:
                if ok(v) and not any((v == m) or (v != v and m != m) for m in menu):
                    menu.append(v)
            if not menu:
                menu = [min_value if math.isfinite(min_value) else max_value]
            return self._pick("float", (min_value, max_value, allow_nan), menu)

        def draw_string(self, intervals, *, min_size=0, max_size=10 ** 10):
            n = len(intervals)
            chars = [intervals.char_in_shrink_order(i) for i in range(min(3, n))]
            chars = [c if isinstance(c, str) else chr(c) for c in chars]
            if not chars:
                return self._pick("str", (0, 0, 0), [""])
            sizes = list(dict.fromkeys([min_size, min(max_size, min_size + 1), min(max_size, min_size + 2)]))
            menu = []
            for s in sizes:
                menu.append(chars[0] * s)
                for ch in chars[1:]:
                    if s >= 1:
                        menu.append(ch + chars[0] * (s - 1))
            return self._pick("str", (min_size, max_size, n), list(dict.fromkeys(menu)))

        def draw_bytes(self, min_size=0, max_size=10 ** 10):
            menu = list(dict.fromkeys([b"\0" * min_size, b"\1" * min(max_size, min_size + 1)]))
            return self._pick("bytes", (min_size, max_size), menu)

    return Scripted


_SCRIPTED = None


def run_once(strategy, script, policy=0):
    """one execution of the real generation code under scripted answers -> (value|None, status, log)"""
    global _SCRIPTED
    from hypothesis.control import BuildContext
    from hypothesis.errors import UnsatisfiedAssumption
    from hypothesis.internal.conjecture.data import ConjectureData, StopTest

    if _SCRIPTED is None:
        _SCRIPTED = _provider_class()
    log = []
    cd = ConjectureData(random=None, provider=_SCRIPTED, provider_kw={"script": script, "log": log, "policy": policy})
    val, status = None, "example"
    try:
        with warnings.catch_warnings():
            warnings.simplefilter("ignore")
            with BuildContext(cd, is_final=False, wrapped_test=lambda: None):
                val = cd.draw(strategy)
    except StopTest:
        status = "no_example:" + cd.status.name
    except UnsatisfiedAssumption:
        status = "no_example:unsatisfied"
    finally:
        try:
            cd.freeze()
        except Exception:  # noqa
            pass
    return val, status, log


def explore(strategy, bound, judge, max_runs=None, policy=0):
    """all answer sequences with <= bound deviations from the default path of `policy`.  judge(value, script, log) is called on every example."""
    stats = {"runs": 0, "examples": 0, "no_example": 0, "max_points": 0, "capped": False}

    def rec(script, start, depth, parent_log):
        if max_runs is not None and stats["runs"] >= max_runs:
            stats["capped"] = True
            return
        val, status, log = run_once(strategy, script, policy)
        stats["runs"] += 1
        stats["max_points"] = max(stats["max_points"], len(log))
        if parent_log is not None and script:
            last = max(script)
            if [x[:2] for x in log[:last]] != [x[:2] for x in parent_log[:last]]:
                raise Divergence(f"replay of prefix diverged before position {last}: {log[:last]} vs {parent_log[:last]}")
        if status == "example":
            stats["examples"] += 1
            judge(val, script, log)
        else:
            stats["no_example"] += 1
        if depth == bound:
            return
        for pos in range(start, len(log)):
            for alt in range(log[pos][1] - 1):
                rec({**script, pos: alt}, pos + 1, depth + 1, log)

    rec({}, 0, 0, None)
    return stats


# ---------------------------------------------------------------------------------------------
# schema space
def _comp(dtype, chain=(), **flags):
    return S.comp(name=flags.pop("name", "a"), dtype=dtype, checks=list(chain), **flags)


CHAIN_CHECKS = {
    "int64": [{"k": "ge", "a": [2]}, {"k": "gt", "a": [2]}, {"k": "le", "a": [2]}, {"k": "lt", "a": [2]}, {"k": "eq", "a": [2]},
              {"k": "ne", "a": [2]}, {"k": "in_range", "a": [1, 3]}, {"k": "in_range", "a": [1, 3, False, False]},
              {"k": "isin", "a": [[1, 2, 3]]}, {"k": "notin", "a": [[2, 3]]}, {"k": "custom_gt0", "a": []}, {"k": "custom_gt0_elem", "a": []}],
    "float64": [{"k": "ge", "a": [2.5]}, {"k": "gt", "a": [2.5]}, {"k": "le", "a": [2.5]}, {"k": "lt", "a": [2.5]},
                {"k": "in_range", "a": [1.5, 3.5, False, False]}, {"k": "isin", "a": [[1.5, 2.5]]}, {"k": "ne", "a": [2.5]}, {"k": "eq", "a": [2.5]}],
    "str": [{"k": "str_matches", "a": ["^x"]}, {"k": "str_contains", "a": ["y"]}, {"k": "str_startswith", "a": ["x"]},
            {"k": "str_endswith", "a": ["z"]}, {"k": "str_length", "a": [1, 2]}, {"k": "str_length", "a": [2, None]},
            {"k": "isin", "a": [["x", "yy"]]}, {"k": "notin", "a": [["0"]]}, {"k": "eq", "a": ["x"]}, {"k": "ne", "a": ["0"]}],
}
OTHER_DTYPES = ["int8", "int16", "int32", "uint8", "uint16", "uint32", "uint64", "float32", "bool", "datetime64[ns]", "timedelta64[ns]",
                "complex128", "Int64", "boolean", "string", "category", "object", "UInt8", "Float64"]
GENERIC_FOR_OTHER = {"bool": [{"k": "eq", "a": [True]}, {"k": "isin", "a": [[True]]}]}


def _numeric_generic(dt):
    if dt.lower().startswith(("int", "uint", "float")):
        return [{"k": "ge", "a": [1]}, {"k": "in_range", "a": [1, 3]}, {"k": "isin", "a": [[1, 2]]}, {"k": "eq", "a": [1]}, {"k": "ne", "a": [0]},
                {"k": "lt", "a": [3]}]
    return GENERIC_FOR_OTHER.get(dt, [])


def schema_space(tier):
    """list of (label, schema spec, sizes, deviation bound)"""
    out = []
    quick = tier == "quick"
    sizes_small = [0, 1, 2, 3]
    d_series = 2 if quick else 3
    for dt, alphabet in CHAIN_CHECKS.items():
        # chains of length 0, 1 with every flag combination, as SeriesSchema / Column / Index
        for chain in [()] + [(c,) for c in alphabet]:
            for flags in ({}, {"nullable": True}, {"unique": True}, {"nullable": True, "unique": True}):
                for kind in ("series", "column", "index"):
                    if kind != "series" and (flags or (len(chain) and quick and alphabet.index(chain[0]) % 3 and not chain[0]["k"].startswith("custom"))):
                        if not (kind == "index" and flags == {"unique": True} and not chain):
                            continue
                    spec = dict(_comp(dt, chain, **flags), kind=kind)
                    if kind == "series":
                        spec["index"] = None
                    out.append((f"{kind}:{dt}", spec, sizes_small if kind != "column" else [2], d_series))
        # chains of length 2, both orders
        core = alphabet if not quick else alphabet[:10]
        for c1 in core:
            for c2 in core:
                if c1 is c2:
                    continue
                spec = dict(_comp(dt, (c1, c2)), kind="series", index=None)
                out.append((f"series2:{dt}", spec, [2], d_series))
    for dt in OTHER_DTYPES:
        for chain in [()] + [(c,) for c in _numeric_generic(dt)]:
            for flags in ({}, {"nullable": True}, {"unique": True}):
                if flags and chain:
                    continue
                spec = dict(_comp(dt, chain, **flags), kind="series", index=None)
                out.append((f"series:{dt}", spec, [2] if quick else [1, 3], 1 if quick else 2))
    # frames
    cols3 = [S.comp(name="a", dtype="int64", checks=[{"k": "ge", "a": [2]}]), S.comp(name="b", dtype="str", checks=[{"k": "str_length", "a": [1, 2]}]),
             S.comp(name="c", dtype="float64", checks=[{"k": "in_range", "a": [1.5, 3.5]}])]
    frames = {
        "plain": S.frame(cols=cols3),
        "unique_nullable": S.frame(cols=[dict(cols3[0], unique=True), dict(cols3[1], nullable=True), dict(cols3[2], nullable=True)]),
        # two columns that are both nullable and unique (null-capable dtypes): masking must keep each column duplicate-free
        "two_unique_nullable": S.frame(cols=[S.comp(name="x", dtype="float64", nullable=True, unique=True), S.comp(name="y", dtype="str", nullable=True, unique=True)]),
        "joint_unique_nullable": S.frame(cols=[S.comp(name="x", dtype="float64", nullable=True), S.comp(name="y", dtype="float64", nullable=True)], unique=["x", "y"]),
        "index": S.frame(cols=cols3[:2], index=dict(S.comp(name="idx", dtype="int64", checks=[{"k": "ge", "a": [0]}], unique=True), kind="single")),
        "multiindex": S.frame(cols=cols3[:1], index={"kind": "multi", "levels": [S.comp(name="k1", dtype="str", checks=[{"k": "isin", "a": [["p", "q"]]}]),
                                                                                  S.comp(name="k2", dtype="int64", checks=[{"k": "ge", "a": [0]}])],
                                                       "strict": False, "ordered": True, "unique": None, "coerce": False}),
        "regex": S.frame(cols=[dict(S.comp(name="r_[0-9]", dtype="int64", checks=[{"k": "ge", "a": [2]}]), regex=True), cols3[1]]),
        "two_checks": S.frame(cols=[S.comp(name="a", dtype="int64", checks=[{"k": "ge", "a": [1]}, {"k": "le", "a": [3]}, {"k": "ne", "a": [2]}]),
                                    S.comp(name="b", dtype="str", checks=[{"k": "str_startswith", "a": ["x"]}, {"k": "str_length", "a": [2, 3]}])]),
        "frame_check": S.frame(cols=cols3[:1], checks=[{"k": "custom_gt0", "a": []}]),
        "joint_unique": S.frame(cols=[cols3[0], S.comp(name="d", dtype="int64", checks=[{"k": "isin", "a": [[1, 2]]}])], unique=["a", "d"]),
        "optional_col": S.frame(cols=[cols3[0], dict(cols3[2], required=False)]),
        "frame_dtype": S.frame(cols=[S.comp(name="a", dtype=None), S.comp(name="b", dtype=None)], dtype="int64"),
        "coerce": S.frame(cols=[dict(cols3[0], coerce=True), cols3[1]], coerce=True),
        "elem_custom": S.frame(cols=[S.comp(name="a", dtype="int64", checks=[{"k": "custom_gt0_elem", "a": []}, {"k": "le", "a": [3]}])]),
    }
    for name, spec in frames.items():
        out.append((f"frame:{name}", spec, [0, 1, 2] if quick else [0, 1, 2, 3], 1 if quick else 2))
    # stand-alone multiindex
    out.append(("multiindex", {"kind": "multiindex", "levels": frames["multiindex"]["index"]["levels"], "strict": False, "ordered": True,
                                "unique": None, "coerce": False}, [1, 2], 1))
    return out


# ---------------------------------------------------------------------------------------------
def _validate_example(schema, spec, val, size):
    """-> None when fine, else (key, detail)"""
    import pandas as pd
    import pandera as pa

    kind = spec.get("kind", "frame")
    try:
        n = len(val)
    except Exception:  # noqa
        return ("not_a_container", repr(val)[:100])
    if size is not None and n != size:
        return ("size", f"requested {size}, got {n}")
    try:
        with warnings.catch_warnings():
            warnings.simplefilter("ignore")
            if kind in ("index", "multiindex"):
                if not isinstance(val, pd.Index):
                    return ("wrong_type", type(val).__name__)
                schema.validate(pd.DataFrame(index=val))
            elif kind == "column":
                schema.validate(val)
            else:
                schema.validate(val)
    except (pa.errors.SchemaError, pa.errors.SchemaErrors) as exc:
        reason = getattr(exc, "reason_code", None)
        chk = getattr(exc, "check", None)
        cname = chk if isinstance(chk, str) else getattr(chk, "name", None)
        import re

        cname = re.sub(r"[^A-Za-z_]+.*", "", str(cname))
        return (f"{getattr(reason, 'name', 'SchemaErrors')}:{cname}", str(exc)[:300])
    except Exception as exc:  # noqa
        return (f"validate_raised:{type(exc).__name__}", repr(exc)[:300])
    return None


def _chain_label(spec):
    if spec.get("kind", "frame") in ("series", "column", "index"):
        flags = "".join(f"+{k}" for k in ("nullable", "unique") if spec.get(k))
        return ">".join(c["k"] for c in spec["checks"]) + flags
    return ""


def run_schema(label, spec, sizes, bound, max_runs=None, policies=(0,)):
    import hypothesis
    import pandera as pa

    viol = {}
    stats_all = {"runs": 0, "examples": 0, "no_example": 0, "points": 0, "distinct_examples": 0, "capped": False}
    with warnings.catch_warnings():
        warnings.simplefilter("ignore")
        try:
            schema = S.build_pandas(spec)
        except Exception as exc:  # noqa
            return viol, stats_all, f"unbuildable:{type(exc).__name__}"
    outcome = "explored"
    for size in sizes:
        try:
            with warnings.catch_warnings():
                warnings.simplefilter("ignore")
                strat = schema.strategy(size=size)
        except (pa.errors.SchemaDefinitionError, pa.errors.SchemaInitError, pa.errors.BaseStrategyOnlyError, hypothesis.errors.InvalidArgument,
                TypeError, ValueError) as exc:
            # the strategy reports that it cannot generate this schema: that is the documented behaviour
            outcome = f"reported:{type(exc).__name__}"
            continue
        distinct = set()

        def judge(val, script, log, size=size, distinct=distinct):
            try:
                distinct.add(val.to_json() if hasattr(val, "to_json") else repr(list(val)))
            except Exception:  # noqa
                distinct.add(repr(val))
            bad = _validate_example(schema, spec, val, size)
            if bad is not None:
                key = f"{label}:{_chain_label(spec)}:{bad[0]}"
                viol.setdefault(("example_validates", key),
                                {"detail": f"size={size} script={script} example={_short(val)} -> {bad[1]}", "size": size, "script": {str(k): v for k, v in script.items()}})

        try:
            st = None
            for pol in policies:
                st1 = explore(strat, bound, judge, max_runs=max_runs, policy=pol)
                if st is None:
                    st = st1
                else:
                    for k_ in ("runs", "examples", "no_example"):
                        st[k_] += st1[k_]
                    st["max_points"] = max(st["max_points"], st1["max_points"])
                    st["capped"] = st["capped"] or st1["capped"]
        except Divergence as exc:
            viol.setdefault(("replay_diverged", f"{label}"), {"detail": str(exc)[:300], "size": size, "script": {}})
            continue
        except (pa.errors.SchemaDefinitionError, pa.errors.SchemaInitError, hypothesis.errors.InvalidArgument, hypothesis.errors.Unsatisfiable) as exc:
            outcome = f"reported:{type(exc).__name__}"
            continue
        except Exception as exc:  # noqa
            from mc import observe as O

            viol.setdefault(("generation_raises", f"{label}:{_chain_label(spec)}:{type(exc).__name__}@{O.pandera_frame_of(exc)}"),
                            {"detail": repr(exc)[:300], "size": size, "script": {}})
            continue
        stats_all["runs"] += st["runs"]
        stats_all["examples"] += st["examples"]
        stats_all["no_example"] += st["no_example"]
        stats_all["points"] = max(stats_all["points"], st["max_points"])
        stats_all["distinct_examples"] += len(distinct)
        stats_all["capped"] = stats_all["capped"] or st["capped"]
    return viol, stats_all, outcome


def _short(val):
    try:
        if hasattr(val, "to_dict"):
            return json.dumps(val.to_dict("list") if hasattr(val, "columns") else val.tolist(), default=str)[:200]
        return repr(list(val))[:200]
    except Exception:  # noqa
        return repr(val)[:200]


def plan(tier, seed):
    space = schema_space(tier)
    cases = []
    for lab, spec, sizes, d in space:
        nullable = any(c.get("nullable") for c in spec.get("cols", [])) or bool(spec.get("nullable"))
        deep = lab in ("frame:two_unique_nullable", "frame:joint_unique_nullable")
        for sz in sizes:
            cases.append({"label": lab, "spec": spec, "sizes": [sz], "bound": max(d, 2) if deep and sz >= 2 else d,
                          "max_runs": 6000 if tier == "quick" else 60000, "policies": [0, 1] if nullable else [0]})
    # cold-start histories: the same strategy built as the very first pandera operation of a fresh interpreter
    chk = [{"k": "lt", "a": [2]}]
    lv = [S.comp(name="k1", dtype="int64", checks=chk), S.comp(name="k2", dtype="str", checks=[{"k": "isin", "a": [["p", "q"]]}])]
    cold = [("series:int64", dict(_comp("int64", chk), kind="series", index=None)), ("column:int64", dict(_comp("int64", chk), kind="column")),
            ("index:int64", dict(_comp("int64", chk), kind="index")),
            ("multiindex", {"kind": "multiindex", "levels": lv, "strict": False, "ordered": True, "unique": None, "coerce": False}),
            ("frame:cold", S.frame(cols=[S.comp(name="a", dtype="int64", checks=chk)], index=dict(S.comp(name="idx", dtype="int64", checks=chk), kind="single"))),
            ("frame:cold_multi", S.frame(cols=[S.comp(name="a", dtype="int64", checks=chk)], index={"kind": "multi", "levels": lv, "strict": False, "ordered": True,
                                                                                                     "unique": None, "coerce": False}))]
    for lab, spec in cold:
        cases.append({"label": lab, "spec": spec, "sizes": [2], "bound": 1, "cold": True})
    return {"cases": cases, "exhaustive": True,
            "bounds": {"default_paths": "schemas with nullable components are explored from two default paths (rotation offset 0 and 1), deviations counted from each",
                       "cold_start": "6 container kinds also explored in a fresh interpreter where building the strategy is pandera's first operation",
                       "deviations": "Series/Index/Column-level schemas: 2 (quick) / 3 (thorough); DataFrame-level and the 19 further dtypes: 1 / 2; a schema whose exploration reaches "
                                     "max_runs executions is reported in counters.capped_schemas (then not exhaustive for that schema)", "sizes": "0..3 (frames 0..2 quick)",
                       "menus": "ints: shrink target, +-1, +2, bounds, bounds+-1 (or +-1000 when unbounded); floats: 0, +-1, .5, 1.5, +-2, 2.5, 3.5, +-1000, "
                                "bounds, bounds+-0.5, +-1, nan if allowed; strings: 3 shortest lengths over the first 3 characters; booleans: both",
                       "schemas": "3 main dtypes x check chains of length <=2 (both orders) x {nullable, unique} x {SeriesSchema, Column, Index}; 19 further dtypes; "
                                  "12 DataFrameSchemas (index, MultiIndex, regex, joint unique, frame-level check/dtype, coerce, optional column); MultiIndex"},
            "rule": "one case = one (schema, size); executions = scripted generation runs (all answer sequences within the deviation bound); states = distinct examples "
                    "produced; non-trivial = schema for which >= 2 distinct examples were produced and judged"}


def _run_cold(case):
    """run one case in a fresh interpreter in which the strategy is the first thing pandera is asked to do
    (lazily registered backends / check strategies are part of the history the property quantifies over)"""
    import os
    import subprocess
    import sys

    root = os.path.dirname(os.path.dirname(os.path.dirname(os.path.abspath(__file__))))
    code = ("import sys,json,warnings;warnings.simplefilter('ignore');sys.path.insert(0,%r);from mc.props import c13;"
            "print('@@'+json.dumps(c13.run_case(json.load(sys.stdin)), default=str))") % root
    sub = dict(case)
    sub.pop("cold")
    p = subprocess.run([sys.executable, "-c", code], input=json.dumps(sub), text=True, capture_output=True,
                       env=dict(os.environ, PYTHONHASHSEED="0"), timeout=600)
    for line in p.stdout.splitlines():
        if line.startswith("@@"):
            res = json.loads(line[2:])
            for v in res["viol"]:
                v["key"] = "cold:" + v["key"]
                if "case" in v:
                    v["case"]["concrete"]["cold"] = True
            res["outcome"] = "cold:" + str(res.get("outcome"))
            return res
    raise RuntimeError("cold run produced no result: " + p.stderr[-1500:])


def run_case(case):
    if case.get("cold") or case.get("concrete", {}).get("cold"):
        c = dict(case)
        if "concrete" in c:
            c["concrete"] = {k: v for k, v in c["concrete"].items() if k != "cold"}
        c["cold"] = True
        return _run_cold(c)
    if "concrete" in case:
        c = case["concrete"]
        viol, st, outcome = run_schema(c["label"], c["spec"], [c["size"]], c["bound"], policies=tuple(c.get("policies", (0,))))
    else:
        viol, st, outcome = run_schema(case["label"], case["spec"], case["sizes"], case["bound"], max_runs=case.get("max_runs"),
                                       policies=tuple(case.get("policies", (0,))))
    out = []
    for (clause, key), info in viol.items():
        base = case["concrete"] if "concrete" in case else case
        out.append({"clause": clause, "key": key, "detail": info["detail"],
                    "case": {"concrete": {"label": base["label"], "spec": base["spec"], "size": info["size"], "bound": base["bound"],
                                          "policies": list(base.get("policies", (0,)))}}})
    return {"viol": out, "states": max(1, st["distinct_examples"]), "transitions": max(1, st["runs"]), "execs": max(1, st["runs"]),
            "nontrivial": st["distinct_examples"] >= 2, "outcome": outcome if outcome != "explored" else ("examples" if st["examples"] else "no_examples"),
            "counters": {"examples": st["examples"], "no_example_runs": st["no_example"], "capped_schemas": 1 if st["capped"] else 0}}
