"""C14 — an inferred schema accepts the data it was inferred from.

Space: per-dtype value pools that contain the extremes named in the property (+-(2**53+1), int64
min/max, +-inf, -0.0, NaN, NaT, datetime bounds, tz-aware timestamps, empty string, mixed object,
categorical with an unused category, nullable Int64, bool, timedelta); ALL columns of length <= L
over each pool (including the empty and the all-null column) x an index alphabet {default, named,
string, datetime, MultiIndex}; frames of one such column (plus a fixed second column), and Series.
Oracle: infer_schema(D).validate(D) returns an object equal to D; every inferred ge/le bound is
attained with equality by D's own min / max (compared in D's dtype, not through float);
from_yaml(to_yaml(S)), from_json(to_json(S)) and the generated script accept D as well.
"""
from __future__ import annotations

import itertools
import math
import warnings

PROPERTY = "C14"
LEVEL = "model_checking"
ASSUMPTIONS = ["frames of more than two columns / longer than the bound are not covered"]

I64MAX, I64MIN = 2**63 - 1, -(2**63)
POOLS = {
    "int64": ("int64", [0, 1, -1, 2**53 + 1, -(2**53 + 1), I64MAX, I64MIN]),
    "float64": ("float64", [0.5, -0.0, float("inf"), float("-inf"), None, 1e308, 3.0]),
    "bool": ("bool", [True, False]),
    "str": ("object", ["a", "", "b c", None]),
    "mixed": ("object", [1, "a", None, 2.5]),
    "datetime": ("datetime64[ns]", ["2020-01-01", "1677-09-22", "2262-04-11", None]),
    "datetime_tz": ("datetime64[ns, UTC]", ["2020-01-01", "2021-06-01T12:00:00", None]),
    "timedelta": ("timedelta64[ns]", ["1 days", "-1 days", "0 days", None]),
    # object columns holding python values of one kind: the statistics infer a logical dtype from the *values*
    "objint": ("object", [1, 2, None, 2**53 + 1]),
    "objfloat": ("object", [0.25, 1.5, None]),
    "objbool": ("object", [True, False, None]),
    "objdate": ("object", ["date:2020-01-01", "date:2021-06-01", None]),
    "category": ("category", ["a", "b", None]),
    "Int64": ("Int64", [1, None, I64MAX]),
    "uint8": ("uint8", [0, 255, 7]),
    "float32": ("float32", [0.1, 16777217.0, None]),
}
INDEXES = ["default", "named", "string", "datetime", "multi", "pool_index", "pool_level", "pool_level_sliced"]
# pool_*: the enumerated column itself is used as the index / as the first level of a MultiIndex (so nulls and extremes also occur in
# index positions); *_sliced: the frame is cut out of a longer MultiIndexed frame, so unused level values remain in MultiIndex.levels


def _series(pool, values):
    import pandas as pd

    dt = POOLS[pool][0]
    vals = list(values)
    if pool == "objdate":
        import datetime

        vals = [datetime.date.fromisoformat(v[5:]) if isinstance(v, str) else v for v in vals]
    if dt.startswith("datetime64[ns, "):
        return pd.Series(pd.to_datetime(vals, utc=True)) if vals else pd.Series([], dtype=dt)
    if dt == "datetime64[ns]":
        return pd.Series(pd.to_datetime(vals)) if vals else pd.Series([], dtype=dt)
    if dt == "timedelta64[ns]":
        return pd.Series(pd.to_timedelta(vals)) if vals else pd.Series([], dtype=dt)
    if dt == "category":
        return pd.Series(pd.Categorical(vals, categories=["a", "b", "unused"]))
    return pd.Series(vals, dtype=dt)


def _index(kind, n):
    import pandas as pd

    if kind == "default":
        return pd.RangeIndex(n)
    if kind == "named":
        return pd.Index(range(10, 10 + n), name="idx")
    if kind == "string":
        return pd.Index([f"r{i}" for i in range(n)], dtype=object)
    if kind == "datetime":
        return pd.DatetimeIndex(pd.to_datetime(["2020-01-01", "2020-01-03", "2020-01-02", "2020-01-04"][:n]), name="when")
    return pd.MultiIndex.from_arrays([["p", "q", "r", "s"][:n], [3, 1, 2, 4][:n]], names=["k1", "k2"])


def _equal(a, b):
    import pandas as pd

    try:
        if isinstance(a, pd.DataFrame):
            pd.testing.assert_frame_equal(a, b, check_exact=True, check_dtype=False, check_categorical=False, check_index_type=False)
        else:
            pd.testing.assert_series_equal(a, b, check_exact=True, check_dtype=False, check_categorical=False, check_index_type=False)
        return True
    except AssertionError:
        return False


def _validate(schema, obj):
    import pandera as pa

    try:
        with warnings.catch_warnings():
            warnings.simplefilter("ignore")
            return "ok", schema.validate(obj.copy())
    except (pa.errors.SchemaError, pa.errors.SchemaErrors) as e:
        if isinstance(e, pa.errors.SchemaErrors):
            e0 = e.schema_errors[0]
        else:
            e0 = e
        return "reject", f"{e0.reason_code.name if e0.reason_code else None}:{str(getattr(e0.check, 'error', None) or getattr(e0.check, 'name', e0.check))[:40]}"
    except Exception as e:  # noqa
        return "exc", f"{type(e).__name__}"


def _bounds(schema_component):
    out = {}
    for ch in schema_component.checks:
        if ch.name == "greater_than_or_equal_to":
            out["min"] = ch.statistics["min_value"]
        if ch.name == "less_than_or_equal_to":
            out["max"] = ch.statistics["max_value"]
    return out


def _check_obj(obj, col_of_interest, pool, tag, add):
    import pandas as pd
    import pandera as pa
    from pandera.io import pandas_io as io

    try:
        with warnings.catch_warnings():
            warnings.simplefilter("ignore")
            schema = pa.infer_schema(obj)
    except Exception as e:  # noqa
        add("infer_runs", f"{pool}:{tag.split(':')[-1]}:{type(e).__name__}", f"{obj!r}: {e!r}")
        return
    st, res = _validate(schema, obj)
    if st != "ok":
        add("inferred_schema_accepts_source", f"{pool}:{tag}:{st}:{res}", f"{obj!r}")
    elif not _equal(res, obj):
        add("validate_returns_equal_object", f"{pool}:{tag}", f"in={obj!r} out={res!r}")
    # tight bounds
    comp = schema.columns[col_of_interest] if isinstance(obj, pd.DataFrame) else schema
    ser = obj[col_of_interest] if isinstance(obj, pd.DataFrame) else obj
    b = _bounds(comp)
    nn = ser.dropna()
    if b and len(nn) and pool not in ("bool",):
        try:
            mn, mx = nn.min(), nn.max()
            if "min" in b and not (pd.Series([mn]) == pd.Series([b["min"]])).all() and not (mn == b["min"]):
                add("bounds_tight", f"{pool}:min", f"data min {mn!r} vs inferred {b['min']!r}")
            elif "min" in b and isinstance(mn, (int,)) or hasattr(mn, "dtype") and str(getattr(mn, "dtype", "")).startswith(("int", "uint")):
                # exactness in the data's own dtype: an int bound must not have gone through float
                if int(mn) != b["min"] or (isinstance(b["min"], float) and int(b["min"]) != int(mn)):
                    add("bounds_tight", f"{pool}:min_inexact", f"data min {int(mn)} vs inferred {b['min']!r}")
            if "max" in b and not (mx == b["max"]):
                add("bounds_tight", f"{pool}:max", f"data max {mx!r} vs inferred {b['max']!r}")
            elif "max" in b and str(getattr(mx, "dtype", "")).startswith(("int", "uint")):
                if isinstance(b["max"], float) and int(b["max"]) != int(mx):
                    add("bounds_tight", f"{pool}:max_inexact", f"data max {int(mx)} vs inferred {b['max']!r}")
        except Exception as e:  # noqa
            add("bounds_tight", f"{pool}:compare_raises:{type(e).__name__}", f"{e!r}")
    # tight bounds of the index component when the pool column sits in the index
    if isinstance(obj, pd.DataFrame) and tag.split(":")[1].startswith("pool_") and schema.index is not None and pool not in ("bool",):
        comp_i = schema.index.indexes[0] if hasattr(schema.index, "indexes") else schema.index
        vals_i = pd.Series(obj.index.get_level_values(0)).dropna()
        bi = _bounds(comp_i)
        if bi and len(vals_i):
            try:
                mn, mx = vals_i.min(), vals_i.max()
                if "min" in bi and not (mn == bi["min"]):
                    add("bounds_tight", f"{pool}:index_min", f"{tag}: index min {mn!r} vs inferred {bi['min']!r}")
                if "max" in bi and not (mx == bi["max"]):
                    add("bounds_tight", f"{pool}:index_max", f"{tag}: index max {mx!r} vs inferred {bi['max']!r}")
            except Exception as e:  # noqa
                add("bounds_tight", f"{pool}:index_compare_raises:{type(e).__name__}", f"{e!r}")
    # serialisation (DataFrameSchema only)
    if isinstance(obj, pd.DataFrame):
        for fmt in ("yaml", "json", "script"):
            try:
                with warnings.catch_warnings():
                    warnings.simplefilter("ignore")
                    if fmt == "yaml":
                        s2 = io.from_yaml(schema.to_yaml())
                    elif fmt == "json":
                        s2 = io.from_json(schema.to_json())
                    else:
                        ns = {}
                        exec(compile(io.to_script(schema), "<script>", "exec"), ns)  # noqa: S102
                        s2 = ns["schema"]
            except Exception as e:  # noqa
                add(f"survives_{fmt}", f"{pool}:roundtrip_raises:{type(e).__name__}", f"{tag} {obj!r}: {str(e)[:200]}")
                continue
            st2, res2 = _validate(s2, obj)
            if st2 != st:
                add(f"survives_{fmt}", f"{pool}:{tag}:{st}->{st2}:{res2 if st2 != 'ok' else ''}", f"{obj!r}")


def _explore(pool, maxlen, index_kinds):
    import pandas as pd

    viol = {}

    def add(clause, key, detail):
        viol.setdefault((clause, key), detail)

    vals = POOLS[pool][1]
    n = 0
    for L in range(0, maxlen + 1):
        for combo in itertools.product(range(len(vals)), repeat=L):
            values = [vals[i] for i in combo]
            try:
                ser = _series(pool, values)
            except Exception:  # noqa
                continue
            allnull = bool(len(ser)) and bool(ser.isna().all())
            shape = "empty" if L == 0 else ("allnull" if allnull else ("hasnull" if ser.isna().any() else "dense"))
            for ik in index_kinds:
                if ik != "default" and (L == 0 or (L < 2 and ik == "multi")):
                    continue
                if ik.startswith("pool_"):
                    if pool in ("category", "mixed", "objint", "objfloat", "objbool", "objdate"):
                        continue
                    n += 1
                    try:
                        if ik == "pool_index":
                            df = pd.DataFrame({"other": list(range(L))}, index=pd.Index(ser, name="ix"))
                        else:
                            extra = _series(pool, values + [vals[-1] if vals[-1] is not None else vals[0]]) if ik == "pool_level_sliced" else ser
                            m = len(extra)
                            mi = pd.MultiIndex.from_arrays([extra.values if not str(extra.dtype).startswith("datetime64[ns,") else extra, list(range(m))],
                                                           names=["k1", "k2"])
                            df = pd.DataFrame({"other": list(range(m))}, index=mi).iloc[:L]
                    except Exception:  # noqa
                        continue
                    _check_obj(df, "other", pool, f"frame:{ik}:{shape}", add)
                    continue
                n += 1
                ser2 = ser.copy()
                ser2.index = _index(ik, L)
                ser2.name = "x"
                cols = {"x": ser2, "other": pd.Series(list(range(L)), index=ser2.index, dtype="int64")}
                if POOLS[pool][0] == "object":
                    # a second object column of another kind (plain strings) after the enumerated one: per-column inference
                    # must not be confused by two columns sharing the physical dtype `object`
                    cols["s"] = pd.Series(["u", "v", "w", "z"][:L], index=ser2.index, dtype="object")
                df = pd.DataFrame(cols)
                _check_obj(df, "x", pool, f"frame:{ik}:{shape}", add)
                if ik in ("default", "named"):
                    n += 1
                    _check_obj(ser2, "x", pool, f"series:{ik}:{shape}", add)
    return viol, n


def plan(tier, seed):
    maxlen = 3 if tier == "quick" else 4
    cases = []
    for p in POOLS:
        for ik in INDEXES:
            cases.append({"pool": p, "maxlen": maxlen, "index": [ik]})
    return {"cases": cases, "exhaustive": True,
            "bounds": {"column_length": maxlen, "pools": {k: [str(x) for x in v[1]] for k, v in POOLS.items()}, "index_alphabet": INDEXES},
            "rule": "one case = one (value pool, index kind); states = every column over the pool up to the length bound, as a frame column "
                    "and as a Series; non-trivial = the column is non-empty (statistics are inferred from it)"}


def run_case(case):
    viol, n = _explore(case["pool"], case["maxlen"], case["index"])
    v = [{"clause": c, "key": k, "detail": d[:600]} for (c, k), d in viol.items()]
    n = max(n, 1)
    return {"viol": v, "states": n, "transitions": n * 5, "execs": n * 5, "nontrivial": True, "nontrivial_n": n,
            "outcome": f"{case['pool']}:{case['index'][0]}"}
