"""Shared E-space planning: shards of the deviation-bounded (schema edits x data edits) space.

A driver case is a *shard* {"base", "ks", "kd", "shard": [i, n], ...}; the worker enumerates the
shard's concrete (schema, table) cases with mc.spec.edits.space and runs the property's oracle on
each.  A concrete failing case is reported with its full JSON so that the replay file is
self-contained ({"concrete": {...}} cases are run directly).
"""
from __future__ import annotations

from mc.spec import edits as E

QUICK_BASES_11 = ["frame", "frame_index", "frame_multi", "series", "series_index", "column", "column_str", "index",
                  "multiindex"]


def plan_shards(tier, parsers=False, bases=None, nshards_big=48, quick_pairs=("frame",), extra=None,
                thorough_combos=((1, 2), (2, 1), (2, 2)), quick_exact=((0, 2), (2, 0), (1, 2))):
    """shards of the deviation-bounded space.  Every base: all cases with <= 1 schema edit and <= 1 data edit (rich alphabet).
    Deeper layers are enumerated by *exact* edit counts so that no case is evaluated twice:
      quick     bases in quick_pairs: exactly (0,2), (2,0), (1,2) edits, core alphabet
      thorough  every base: exactly (0,2), (2,0), (1,2), (2,1) rich and (2,2) core
    (combinations of >= 3 edits only when they collide on one component or are frame-level)."""
    cases = []
    if bases is None:
        bases = QUICK_BASES_11 + (["frame_parsing", "index_parsing", "series_index_parsing", "frame_multi_unordered"] if parsers else [])
    for b in bases:
        for sh in range(4):
            cases.append({"base": b, "ks": 1, "kd": 1, "shard": [sh, 4], "parsers": parsers, "rich": True})
    if tier == "quick":
        for b in quick_pairs:
            for (ks, kd) in quick_exact:
                n = nshards_big if ks + kd >= 3 else 8
                for sh in range(n):
                    cases.append({"base": b, "ks": ks, "kd": kd, "exact": [ks, kd], "shard": [sh, n], "parsers": parsers, "rich": False})
    else:
        exacts = []
        for (ks, kd) in thorough_combos:
            for e in ([(0, 2), (1, 2)] if (ks, kd) == (1, 2) else [(2, 0), (2, 1)] if (ks, kd) == (2, 1) else [(ks, kd)]):
                if e not in exacts:
                    exacts.append(e)
        for b in bases:
            for (ks, kd) in exacts:
                n = nshards_big * (4 if (ks, kd) == (2, 2) else 1) if ks + kd >= 3 else 8
                for sh in range(n):
                    cases.append({"base": b, "ks": ks, "kd": kd, "exact": [ks, kd], "shard": [sh, n], "parsers": parsers,
                                  "rich": (ks, kd) != (2, 2)})
    for c in cases:
        if extra:
            c.update(extra)
    return cases


def concrete_cases(case):
    if "concrete" in case:
        return [case["concrete"]]
    return E.space(case["base"], case["ks"], case["kd"], parsers=case.get("parsers", False),
                   rich=case.get("rich", True), shard=tuple(case["shard"]), exact=tuple(case["exact"]) if case.get("exact") else None)


BOUNDS_TEXT = {
    "rows": "3 (base) .. 4 (after a duplicate-row edit), 0 for the empty-frame edit",
    "quick": "all bases with <=1 schema edit x <=1 data edit (rich alphabet); base 'frame' with exactly (0,2), (2,0) and (1,2) (schema, data) edits "
             "(core alphabet); combinations of >=3 edits restricted to edits that collide on one component or are frame-level",
    "thorough": "all bases with <=(1,1), exactly (0,2), (2,0), (1,2), (2,1) edits (rich alphabet) and (2,2) (core alphabet), same collision restriction",
}


def run_shard(case, oracle):
    """oracle(concrete) -> (viol list, nontrivial bool, outcome label).  Aggregates a shard."""
    viol, nontriv, outcomes, n = [], 0, {}, 0
    seen = set()
    for cc in concrete_cases(case):
        n += 1
        v, nt, label = oracle(cc)
        nontriv += 1 if nt else 0
        outcomes[label] = outcomes.get(label, 0) + 1
        for x in v:
            sig = (x["clause"], x["key"])
            if sig in seen:
                continue
            seen.add(sig)
            x = dict(x)
            keep = {k: val for k, val in case.items() if k not in ("base", "ks", "kd", "shard", "rich", "parsers", "exact")}
            x["case"] = dict(keep, concrete=cc)
            viol.append(x)
    top = max(outcomes.items(), key=lambda kv: kv[1])[0] if outcomes else "empty"
    return {"viol": viol, "states": n, "transitions": n * (case.get("ks", 0) + case.get("kd", 0) + 1), "execs": n,
            "nontrivial": nontriv > 0, "nontrivial_n": nontriv, "outcome": top, "counters": dict({"nontrivial_cases": nontriv},
                                                                          **{"o:" + k: v for k, v in outcomes.items()})}


# ---------------------------------------------------------------------------------------------
# signatures: greedy delta-minimisation over the edit list, then the *kinds* of surviving edits
def rebuild(base, sedits, dedits):
    spec, table = E.BASES[base]
    for e in sedits:
        spec = E.apply_schema_edit(spec, e)
    for e in dedits:
        table = E.apply_data_edit(table, e)
        if table is None:
            return None
    return {"base": base, "schema": spec, "table": table, "edits": [list(sedits), list(dedits)]}


def edit_kind(e):
    op = e[0]
    if op == "set":
        v = e[3]
        return f"set:{e[2]}={v}" if isinstance(v, (bool, type(None))) or e[2] in ("dtype",) else f"set:{e[2]}"
    if op == "set2":
        return "set2:" + ",".join(f"{k}={v}" for k, v in sorted(e[2].items()))
    if op == "addcheck":
        return "addcheck:" + e[2]["k"]
    if op == "regex":
        return "regex"
    if op == "frame":
        v = e[2]
        return f"frame:{e[1]}={v}" if isinstance(v, (bool, str, type(None))) else f"frame:{e[1]}"
    if op == "frame2":
        return "frame2:" + ",".join(f"{k}" for k in sorted(e[1]))
    if op == "addindex":
        return "addindex"
    if op == "cell":
        v = e[3]
        what = "null" if v is None else ("wrongtype" if e[4] == "object" or (isinstance(v, int) and e[4] is None and False) else "value")
        return f"cell:{what}"
    if op in ("coldtype", "ixdtype", "mixdtype"):
        return f"{op}:{e[-1]}"
    if op == "index":
        ix = e[1]
        return "index:" + ("none" if ix is None else ix["kind"] + ":" + str(ix.get("dtype", "")))
    return op


def signature(cc):
    se, de = cc.get("edits", [[], []])
    kinds = sorted(edit_kind(e) for e in se) + sorted(edit_kind(e) for e in de)
    return cc.get("base", "?") + "|" + "+".join(kinds)


def minimise(cc, still_fails):
    """Greedy: drop edits while still_fails(candidate) holds.  cc must carry base+edits."""
    if "base" not in cc or "edits" not in cc:
        return cc
    se, de = [list(x) for x in cc["edits"]]
    changed = True
    cur = cc
    while changed:
        changed = False
        for which in (0, 1):
            lst = se if which == 0 else de
            for i in range(len(lst)):
                cand_se = se[:i] + se[i + 1:] if which == 0 else se
                cand_de = de[:i] + de[i + 1:] if which == 1 else de
                try:
                    cand = rebuild(cc["base"], cand_se, cand_de)
                except Exception:  # noqa
                    cand = None
                if cand is None:
                    continue
                try:
                    ok = still_fails(cand)
                except Exception:  # noqa
                    ok = False
                if ok:
                    se, de, cur = cand_se, cand_de, cand
                    changed = True
                    break
            if changed:
                break
    return cur
