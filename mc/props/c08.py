"""C08 — one schema definition means the same thing on pandas and on polars.

Differential exploration over backend-neutral specs: the 'frame' base (int / str / float columns,
default index) and a datetime/bool base, <= k schema edits from the common vocabulary (nullable,
unique, required, strict, ordered, add_missing_columns, default, coerce, every built-in check incl.
regexes with top-level alternation, anchors, classes, empty pattern) x <= k data edits.
Oracle: same verdict (lazy validation); same failing (column, check, row position) set with equal
values; same parsed output up to the null representation.  Documented differences are excluded by
construction: report_duplicates, unique_column_names, index schemas, custom parsers, element-wise
checks, mixed-type object columns, nullable-extension dtypes.
"""
from __future__ import annotations

import math

from mc import observe as O
from mc.props import espace
from mc.spec import edits as E
from mc.spec import schema as S
from mc.spec import table as T

PROPERTY = "C08"
LEVEL = "model_checking"
ASSUMPTIONS = ["float NaN and None both denote 'missing' in the neutral table format (built as NaN in pandas, null in polars)"]

EXTRA_STR_CHECKS = [
    {"k": "str_matches", "a": ["x|z"]}, {"k": "str_matches", "a": ["y|z"]}, {"k": "str_matches", "a": ["(x|yy)$"]},
    {"k": "str_matches", "a": ["[xy]+"]}, {"k": "str_matches", "a": [""]}, {"k": "str_matches", "a": ["^yy$|^z$"]},
    {"k": "str_contains", "a": ["x|z"]}, {"k": "str_contains", "a": ["^y"]}, {"k": "str_contains", "a": [""]},
    {"k": "str_startswith", "a": [""]}, {"k": "str_endswith", "a": ["y"]}, {"k": "str_length", "a": [0, 1]},
    {"k": "isin", "a": [[]]}, {"k": "notin", "a": [[]]},
]


def _schema_ok(e):
    if e[0] == "set":
        if e[2] == "dtype":
            return e[3] is not None and e[3] != "object"
        return e[2] in ("nullable", "unique", "required", "coerce", "default")
    if e[0] == "addcheck":
        return True
    if e[0] == "frame":
        return e[1] in ("strict", "ordered", "unique", "add_missing_columns", "coerce") and e[2] != []
    return e[0] in ("regex",) and False


def _data_ok(e):
    if e[0] == "cell":
        return e[4] != "object" and not (isinstance(e[3], int) and e[1] == "b")
    if e[0] == "coldtype":
        return e[2] in ("float64", "numstr")
    return e[0] in ("duprow", "droprow", "empty", "dropcol", "addcol", "swapcols")


def _space(case):
    if "concrete" in case:
        return [case["concrete"]]
    spec0, table0 = E.BASES[case.get("base", "frame")]
    sed = [e for e in E.schema_edits(spec0, parsers=True, rich=False) if _schema_ok(e)]
    if case.get("base", "frame") == "frame":
        sed += [["addcheck", "col:b", c] for c in EXTRA_STR_CHECKS]
    ded = [e for e in E.data_edits(table0, rich=False) if _data_ok(e)]
    import itertools

    out, seen, sidx = [], set(), -1
    exact = case.get("exact")   # layers by exact edit counts: no (schema, table) pair is evaluated by two layers
    for i in range(case["ks"] + 1):
        if exact and i not in exact[0]:
            continue
        for scomb in itertools.combinations(sed, i):
            sidx += 1
            if sidx % case["shard"][1] != case["shard"][0]:
                continue
            spec = spec0
            for e in scomb:
                spec = E.apply_schema_edit(spec, e)
            if not S.polars_expressible(spec):
                continue
            st = [E.schema_edit_target(e) for e in scomb]
            for j in range(case["kd"] + 1):
                if exact and (i, j) not in [tuple(x) for x in exact[1]]:
                    continue
                for dcomb in itertools.combinations(ded, j):
                    if (i + j) >= 3 and not E._related(st + [E.data_edit_target(e) for e in dcomb]):
                        continue
                    table = table0
                    for e in dcomb:
                        table = E.apply_data_edit(table, e)
                        if table is None:
                            break
                    if table is None or not T.polars_representable(table):
                        continue
                    key = E.canon([spec, table])
                    if key in seen:
                        continue
                    seen.add(key)
                    out.append({"base": "frame", "schema": spec, "table": table, "edits": [list(scomb), list(dcomb)]})
    return out


def _val(v):
    if v is None:
        return "null"
    if isinstance(v, bool):
        return f"b:{v}"
    if isinstance(v, (int, float)):
        if isinstance(v, float) and math.isnan(v):
            return "null"
        return repr(float(v))
    if isinstance(v, str):
        try:
            return repr(float(v))
        except ValueError:
            return "s:" + v
    return repr(v)


def _cells(report):
    cells, frame = set(), set()
    for r in report["rows"]:
        if r["index"] is None:
            frame.add((r["column"] if r["check"] not in ("column_in_dataframe", "column_in_schema", "column_ordered") else None,
                       r["check"]))
        else:
            idx = r["index"]
            cells.add((r["column"], r["check"], int(idx) if not isinstance(idx, str) else idx, _val(r["value"])))
    return cells, frame


def _norm_result(snap):
    cols = []
    for c in snap["cols"]:
        kind = c["dtype"].lower()
        kind = {"object": "str", "string": "str", "utf8": "str"}.get(kind, kind)
        kind = kind.replace("datetime64[ns]", "datetime").split("(")[0]
        cols.append((c["name"], kind, [("null" if (v is None or v == "NaN") else _val(v)) for v in c["values"]]))
    return cols


def _int_null_coercion(spec, table):
    """numpy int64 cannot hold a missing value, polars Int64 can: coercing a column with nulls to int
    is a representational difference between the backends, excluded by construction"""
    tcols = {c["name"]: c for c in table["cols"]}
    for c in spec["cols"]:
        if c["dtype"] == "int64" and (c.get("coerce") or spec.get("coerce")) and c["name"] in tcols:
            if any(v is None for v in tcols[c["name"]]["values"]):
                return True
    return False


def _clauses(cc):
    spec, table = cc["schema"], cc["table"]
    out = []
    if _int_null_coercion(spec, table):
        return out, "excluded:int_null_coercion"
    pd_ = O.validate_pandas(spec, table, lazy=True)
    pl_ = O.validate_polars(spec, table, lazy=True)
    label = f"{pd_['outcome']}/{pl_['outcome']}"
    if "leak" in (pd_["outcome"], pl_["outcome"]) or "user_callback_exception" in (pd_["outcome"], pl_["outcome"]):
        return out, "leak:" + label  # C06's business
    if pd_["outcome"] not in ("ok", "SchemaErrors") or pl_["outcome"] not in ("ok", "SchemaErrors"):
        if pd_["outcome"] != pl_["outcome"]:
            out.append(("verdict_equal", f"{pd_['outcome']}|{pl_['outcome']}", ""))
        return out, label
    if pd_["outcome"] != pl_["outcome"]:
        why = ""
        rep = (pd_ if pd_["outcome"] != "ok" else pl_).get("report")
        if rep:
            why = "+".join(sorted({r["check"] for r in rep["rows"]}))
        out.append(("verdict_equal", f"pandas={pd_['outcome']}|polars={pl_['outcome']}|{why}", f"report={rep and rep['rows'][:4]}"))
        return out, label
    if pd_["outcome"] == "SchemaErrors":
        c1, f1 = _cells(pd_["report"])
        c2, f2 = _cells(pl_["report"])
        # exclusions (documented / representational differences, see module docstring and DESIGN.md):
        #  - columns whose physical dtype is wrong in both backends: what a value check reports on
        #    wrongly typed data is unspecified (pandas compares element-wise, polars raises)
        #  - nulls: an int column cannot hold a null in pandas (coercion failure) but can in polars;
        #    uniqueness among nulls is unspecified
        bad_dtype_cols = {col for (col, chk) in f1 if chk == "dtype"} & {col for (col, chk) in f2 if chk == "dtype"}
        bad_dtype_cols |= {x[0] for x in c1 if x[1] == "dtype"} & ({col for (col, chk) in f2 if chk == "dtype"} | {x[0] for x in c2 if x[1] == "dtype"})

        def keep_cell(x):
            if x[0] in bad_dtype_cols and x[1].startswith("check#"):
                return False
            if x[1] in ("coerce_dtype", "field_uniqueness", "multiple_fields_uniqueness") and x[3] == "null":
                return False
            return True

        c1 = {x for x in c1 if keep_cell(x)}
        c2 = {x for x in c2 if keep_cell(x)}
        f1 = {x for x in f1 if not (x[0] in bad_dtype_cols and str(x[1]).startswith("check#"))}
        f2 = {x for x in f2 if not (x[0] in bad_dtype_cols and str(x[1]).startswith("check#"))}
        # joint uniqueness (frame-level unique=[...]): the ROWS both backends report are compared under the ordinary key; how a reported
        # row is labelled (pandas: one cell per column of the subset with that column's value, polars: column None with the value / a
        # JSON struct of the subset) is compared separately, under a fixed key of its own
        JU = "multiple_fields_uniqueness"
        ju1, ju2 = {x for x in c1 if x[1] == JU}, {x for x in c2 if x[1] == JU}
        if ju1 != ju2 and {x[2] for x in ju1} == {x[2] for x in ju2}:
            out.append(("failing_cells_equal", "@joint_uniqueness_rows_equal_but_labelled_differently",
                        f"only_pandas={sorted(map(str, ju1 - ju2))[:4]} only_polars={sorted(map(str, ju2 - ju1))[:4]}"))
            c1, c2 = c1 - ju1, c2 - ju2
        if c1 != c2:
            only_pd = sorted(map(str, c1 - c2))[:4]
            only_pl = sorted(map(str, c2 - c1))[:4]
            kinds = sorted({x[1] for x in (c1 ^ c2)})
            out.append(("failing_cells_equal", "+".join(kinds), f"only_pandas={only_pd} only_polars={only_pl}"))
        if f1 != f2:
            out.append(("frame_level_errors_equal", "+".join(sorted({str(x[1]) for x in (f1 ^ f2)})),
                        f"pandas={sorted(map(str, f1))} polars={sorted(map(str, f2))}"))
    else:
        r1, r2 = _norm_result(pd_["result"]), _norm_result(pl_["result"])
        if r1 != r2:
            n1, n2 = [c[0] for c in r1], [c[0] for c in r2]
            # the same columns in another order is reported under its own key: a lost / invented column must never share one with it
            what = "column_order" if (n1 != n2 and sorted(map(str, n1)) == sorted(map(str, n2))) else "columns" if n1 != n2 else ("dtypes" if [c[1] for c in r1] != [c[1] for c in r2] else "values")
            out.append(("parsed_output_equal", what, f"pandas={r1} polars={r2}"))
    parsing = bool(spec.get("coerce") or spec.get("add_missing_columns") or spec.get("strict") == "filter"
                   or any(c.get("coerce") or c.get("default") is not None for c in spec["cols"]))
    n_edits = sum(len(x) for x in cc.get("edits", [[], []]))
    if pd_["outcome"] == "SchemaErrors" and (parsing or n_edits <= 2):
        # history of length 2 on the SAME schema objects: after the rejected table, a table that conforms once parsed (numeric
        # strings where the schema coerces).  A backend that leaves something behind in its schema after a failure now disagrees.
        t2 = E.BASES["frame"][1]
        if spec.get("coerce") or any(c.get("coerce") for c in spec["cols"]):
            t2c = E.apply_data_edit(t2, ["coldtype", "a", "numstr"])
            t2 = t2c if t2c is not None else t2
        if not _int_null_coercion(spec, t2):
            pd2 = O.validate_pandas(spec, t2, lazy=True, schema=pd_["_schema"])
            pl2 = O.validate_polars(spec, t2, lazy=True, schema=pl_["_schema"])
            if "leak" not in (pd2["outcome"], pl2["outcome"]) and pd2["outcome"] != pl2["outcome"]:
                fresh = O.validate_polars(spec, t2, lazy=True)["outcome"], O.validate_pandas(spec, t2, lazy=True)["outcome"]
                if fresh[0] == fresh[1]:   # the two backends agree on t2 with fresh schemas: the disagreement is history-made
                    out.append(("verdict_equal_after_failure", f"pandas={pd2['outcome']}|polars={pl2['outcome']}",
                                f"second validate on the same schema objects, table={t2['cols'][0]}"))
    return out, label


def oracle(cc):
    cl, label = _clauses(cc)
    viol = []
    for clause, key, detail in cl:
        if key.startswith("@"):  # structural finding with a fixed key: no edit signature
            viol.append({"clause": clause, "key": key[1:], "detail": detail[:1200]})
            continue

        def still(c2, clause=clause, key=key):
            if not (S.polars_expressible(c2["schema"]) and T.polars_representable(c2["table"])):
                return False
            return any(c == clause and k == key for c, k, _ in _clauses(c2)[0])
        m = espace.minimise(cc, still)
        viol.append({"clause": clause, "key": key + "|" + espace.signature(m), "detail": detail[:1200]})
    return viol, ("SchemaErrors" in label) or any(c["schema"] != E.BASES["frame"][0] for c in [cc]), label


def plan(tier, seed):
    # (ks, kd, shards, exact (schema, data) edit counts of the layer)
    combos = [(1, 1, 8, [(0, 0), (1, 0), (0, 1), (1, 1)]), (1, 2, 32, [(0, 2), (1, 2)]), (2, 1, 48, [(2, 0), (2, 1)])]
    if tier != "quick":
        combos.append((2, 2, 256, [(2, 2)]))
    cases = []
    for ks, kd, nsh, layer in combos:
        for sh in range(nsh):
            cases.append({"ks": ks, "kd": kd, "shard": [sh, nsh], "exact": [sorted({i for i, _ in layer}), layer]})
    # the parsing corner (optional column absent, default, nullable, ordered + add_missing_columns) as a second base: the column
    # insertion / filtering logic of both backends is one or two edits away from it
    for ks, kd, nsh, layer in combos[:2] + (combos[2:3] if tier != "quick" else []):
        for sh in range(max(nsh // 4, 4)):
            cases.append({"base": "frame_parsing", "ks": ks, "kd": kd, "shard": [sh, max(nsh // 4, 4)], "exact": [sorted({i for i, _ in layer}), layer]})
    return {"cases": cases, "exhaustive": True,
            "bounds": {"edits": [c[3] for c in combos], "base": "frame (int, str, float columns; default index); frame_parsing (optional/defaulted/nullable columns, ordered, add_missing_columns) with <= (1,2) edits", "rows": "<= 4"},
            "rule": "state = distinct backend-neutral (schema, table); both backends validate lazily; non-trivial = schema differs from the base or errors were collected"}


def run_case(case):
    viol, seen, n, nt = [], set(), 0, 0
    outcomes = {}
    for cc in _space(case):
        n += 1
        v, nontriv, label = oracle(cc)
        nt += 1 if nontriv else 0
        outcomes[label] = outcomes.get(label, 0) + 1
        for x in v:
            if (x["clause"], x["key"]) in seen:
                continue
            seen.add((x["clause"], x["key"]))
            viol.append(dict(x, case={"concrete": cc}))
    n = max(n, 1)
    return {"viol": viol, "states": n, "transitions": n * 2, "execs": n * 2, "nontrivial": nt > 0, "nontrivial_n": nt,
            "outcome": max(outcomes.items(), key=lambda kv: kv[1])[0] if outcomes else "empty",
            "counters": {"o:" + k: v for k, v in outcomes.items()}}
