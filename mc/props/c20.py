"""C20 — head / tail / sample validate exactly the requested rows and return the whole object.

Space: frames of <= 4 rows (duplicate rows, duplicate index labels, nulls, failing first / middle /
last rows) x schemas with row-level constraints x ALL (head, tail, sample) in {None,0..len}^3 x
random_state in {0,1,2}; pandas DataFrameSchema / SeriesSchema / Column and polars DataFrameSchema.
Oracle (differential, no expected values):
   verdict_equals_explicit_subsample   verdict(S, D, h, t, n, r) == verdict(S, D.iloc[selected positions])
   returns_whole_object                on success the result has all rows of D
   deterministic                       the same call twice gives the same outcome
   all_rows_equals_no_option           head=len(D) behaves like no option at all
The positions of the sample are obtained from the library's own sampler applied to a row-number
column of the same length with the same seed.
"""
from __future__ import annotations

import itertools

from mc import observe as O
from mc.props import espace
from mc.spec import edits as E
from mc.spec import schema as S
from mc.spec import table as T

PROPERTY = "C20"
LEVEL = "model_checking"
ASSUMPTIONS = ["sample positions are those pandas/polars' own sampler picks for a container of the same length and seed"]


def _schema_ok(e):
    if e[0] == "addcheck":
        return e[2]["k"] in ("ge", "le", "eq", "isin", "str_length", "str_matches", "in_range")
    if e[0] in ("set", "set2"):
        return (e[2] in ("unique", "nullable")) if e[0] == "set" else True
    if e[0] in ("frame", "frame2"):
        return e[1] == "unique" if e[0] == "frame" else True
    return False


def _data_ok(e):
    if e[0] == "cell":
        return e[3] in (0, 2, 4, None, "x", "", 2.5) and e[2] in (0, 2)
    if e[0] in ("duprow",):
        return True
    if e[0] == "index":
        ix = e[1]
        return ix is not None and ix["kind"] == "single"
    return False


QUICK_TABLE_EDITS = [
    [], [["duprow", 0]], [["duprow", 2]],
    [["index", {"kind": "single", "values": [7, 7, 8], "dtype": "int64", "name": None}]],
    [["index", {"kind": "single", "values": ["r0", "r1", "r2"], "dtype": "object", "name": None}]],
    [["cell", "a", 0, 4, None]], [["cell", "a", 2, 0, None]], [["cell", "a", 0, 2, None]], [["cell", "c", 1, None, None]],
    [["cell", "b", 2, "", None]],
    [["duprow", 0], ["index", {"kind": "single", "values": [7, 7, 8, 8], "dtype": "int64", "name": None}]],
    [["cell", "a", 2, 0, None], ["index", {"kind": "single", "values": [7, 7, 8], "dtype": "int64", "name": None}]],
    [["cell", "a", 0, 4, None], ["index", {"kind": "single", "values": [7, 8, 8], "dtype": "int64", "name": None}]],
    [["duprow", 2], ["cell", "a", 0, 4, None]],
]


def plan(tier, seed):
    cases = []
    if tier == "quick":
        for b, nsh in (("frame", 24), ("series", 4), ("column", 4)):
            for sh in range(nsh):
                cases.append({"base": b, "shard": [sh, nsh], "backend": "pandas", "tier": tier, "mode": "list"})
        for sh in range(12):
            cases.append({"base": "frame", "shard": [sh, 12], "backend": "polars", "tier": tier, "mode": "list"})
    else:
        for b, nsh in (("frame", 256), ("series", 32), ("column", 32)):
            for sh in range(nsh):
                cases.append({"base": b, "ks": 1, "kd": 2, "shard": [sh, nsh], "backend": "pandas", "tier": tier, "mode": "space"})
        for sh in range(128):
            cases.append({"base": "frame", "ks": 1, "kd": 2, "shard": [sh, 128], "backend": "polars", "tier": tier, "mode": "space"})
    return {"cases": cases, "exhaustive": True,
            "bounds": {"rows": "<= 4 (3 + duplicated row)",
                       "options": ("head, tail, sample each in {None, 0..len}; random_state in {0,1,2}" if tier == "thorough"
                                   else "head, tail in {None,0,1,len}; sample in {None,1}; random_state 0"),
                       "schema_edits": "<= 1 row-level constraint",
                       "data_edits": "thorough: all <= 2 (cell, duplicate row, index labels); quick: a fixed list of 14 tables with duplicate rows, duplicate / string labels and failing first/middle/last rows"},
            "rule": "state = distinct (schema, table, head, tail, sample, random_state); non-trivial = the subsample differs from the "
                    "whole frame and the whole-frame verdict is REJECT (so the options can change the verdict)"}


def _space(case):
    if case.get("mode") == "space":
        return E.space(case["base"], case["ks"], case["kd"], parsers=False, rich=False, shard=tuple(case["shard"]),
                       schema_filter=_schema_ok, data_filter=_data_ok)
    spec0, table0 = E.BASES[case["base"]]
    sed = [[]] + [[e] for e in E.schema_edits(spec0, rich=False) if _schema_ok(e)]
    out = []
    k = -1
    for se in sed:
        k += 1
        if k % case["shard"][1] != case["shard"][0]:
            continue
        spec = spec0
        for e in se:
            spec = E.apply_schema_edit(spec, e)
        for de in QUICK_TABLE_EDITS:
            table = table0
            for e in de:
                table = E.apply_data_edit(table, e)
                if table is None:
                    break
            if table is None:
                continue
            out.append({"base": case["base"], "schema": spec, "table": table, "edits": [se, de]})
    return out


def _options(n, tier):
    if tier == "thorough":
        hs = [None] + list(range(0, n + 1))
        ns = [None] + list(range(0, n + 1))
        rss = [0, 1, 2]
    else:
        hs = sorted({None, 0, 1, n}, key=lambda x: (-1 if x is None else x))
        ns = [None, 1] if n >= 1 else [None]
        rss = [0]
    for h in hs:
        for t in hs:
            for s in ns:
                for r in (rss if s is not None else [None]):
                    if h is None and t is None and s is None:
                        continue
                    yield {"head": h, "tail": t, "sample": s, "random_state": r}


def _positions(n, opts, backend):
    pos = []
    if opts["head"] is not None:
        pos += list(range(n))[:opts["head"]]
    if opts["tail"] is not None:
        pos += list(range(n))[n - opts["tail"]:] if opts["tail"] > 0 else []
    if opts["sample"] is not None:
        if backend == "pandas":
            import pandas as pd

            pos += pd.Series(range(n)).sample(opts["sample"], random_state=opts["random_state"]).tolist()
        else:
            import polars as pl

            pos += pl.DataFrame({"p": list(range(n))}).sample(opts["sample"], seed=opts["random_state"])["p"].to_list()
    seen, out = set(), []
    for p in pos:
        if p not in seen:
            seen.add(p)
            out.append(p)
    return out


def _sub_table(table, pos):
    t = T.clone(table)
    for c in t["cols"]:
        c["values"] = [c["values"][i] for i in pos]
    ix = t.get("index")
    if ix is None:
        if pos != list(range(len(pos))):
            t["index"] = {"kind": "single", "values": list(pos), "dtype": "int64", "name": None}
    elif ix["kind"] == "single":
        ix["values"] = [ix["values"][i] for i in pos]
    else:
        for l in ix["levels"]:
            l["values"] = [l["values"][i] for i in pos]
    return t


def _verdict(obs):
    if obs["outcome"] == "ok":
        return "ACCEPT"
    if obs["outcome"] in ("SchemaError", "SchemaErrors"):
        return "REJECT"
    return f"LEAK:{obs.get('exc')}@{obs.get('where')}"


def _features(table, opts):
    f = []
    labels = None
    ix = table.get("index")
    n = T.nrows(table)
    if ix is not None and ix["kind"] == "single":
        labels = ix["values"]
        if len(set(map(repr, labels))) != len(labels):
            f.append("dup_index_labels")
    rows = list(zip(*[c["values"] for c in table["cols"]]))
    if len(set(map(repr, rows))) != len(rows):
        f.append("dup_rows")
    f += [k for k in ("head", "tail", "sample") if opts.get(k) is not None]
    return f


def _check_one(cc, opts, backend):
    """-> list of (clause, key, detail), nontrivial"""
    spec, table = cc["schema"], cc["table"]
    n = T.nrows(table)
    kind = spec.get("kind", "frame")
    out = []
    if backend == "pandas":
        full = O.validate_pandas(spec, table)
        sub = O.validate_pandas(spec, table, **opts)
        again = O.validate_pandas(spec, table, **opts)
    else:
        full = O.validate_polars(spec, table)
        sub = O.validate_polars(spec, table, **opts)
        again = O.validate_polars(spec, table, **opts)
    feats = "+".join(_features(table, opts))
    v_sub = _verdict(sub)
    if v_sub.startswith("LEAK"):
        out.append(("no_internal_exception", f"{backend}:{kind}:{v_sub}", f"opts={opts} {sub.get('msg')}"))
        return out, False
    pos = _positions(n, opts, backend)
    if backend == "pandas":
        expl = O.validate_pandas(spec, _sub_table(table, pos))
    else:
        expl = O.validate_polars(spec, _sub_table(table, pos))
    v_expl = _verdict(expl)
    if v_expl.startswith("LEAK"):
        return out, False
    if v_sub != v_expl:
        out.append(("verdict_equals_explicit_subsample", f"{backend}:{kind}:{v_expl}->{v_sub}|{feats}",
                    f"opts={opts} positions={pos} table={table}"))
    if v_sub == "ACCEPT":
        if backend == "pandas":
            same = sub["result"] == sub["input_before"]
        else:
            same = sub["result"]["cols"] == sub["input_before"]["cols"]
        if not same:
            out.append(("returns_whole_object", f"{backend}:{kind}|{feats}", f"opts={opts} result={sub['result']}"))
    if _verdict(again) != v_sub:
        out.append(("deterministic", f"{backend}:{kind}|{feats}", f"opts={opts}"))
    if opts["head"] == n and opts["tail"] is None and opts["sample"] is None and _verdict(full) != v_sub:
        out.append(("all_rows_equals_no_option", f"{backend}:{kind}:{_verdict(full)}->{v_sub}|{feats}", f"opts={opts}"))
    nontrivial = _verdict(full) == "REJECT" and len(pos) < n
    return out, nontrivial


def run_case(case):
    backend, tier = case["backend"], case["tier"]
    viol, seen = [], set()
    states = nontriv = 0
    outcomes = {}
    concrete = case.get("concrete")
    for cc in ([concrete] if concrete else _space(case)):
        if backend == "polars" and not (S.polars_expressible(cc["schema"]) and T.polars_representable(cc["table"])):
            continue
        n = T.nrows(cc["table"])
        for opts in ([concrete["opts"]] if concrete else _options(n, tier)):
            states += 1
            res, nt = _check_one(cc, opts, backend)
            nontriv += 1 if nt else 0
            for clause, key, detail in res:
                outcomes[clause] = outcomes.get(clause, 0) + 1
                if (clause, key) in seen:
                    continue
                seen.add((clause, key))
                viol.append({"clause": clause, "key": key, "detail": detail[:1200],
                             "case": {"backend": backend, "tier": tier, "concrete": dict(cc, opts=opts)}})
    if not states:
        states = 1
    return {"viol": viol, "states": states, "transitions": states * 4, "execs": states * 4, "nontrivial": nontriv > 0,
            "nontrivial_n": nontriv, "outcome": f"{backend}:{case['base']}", "counters": outcomes}
