"""C19 — check options do only what they document.

Metamorphic exploration: for every predicate of a generated family, every data vector of length
<= L over {1, 2, 3, -1, null} (x index kinds) and every validation level (SeriesSchema, Column,
Index, DataFrame-level) the relations between *option variants of the same check* must hold:

  element_wise      Check(f, element_wise=True)  ==  Check(lambda s: s.map(f))      verdict + failure cases
  ignore_na         with ignore_na=True the function never sees a null and nulls never fail;
                    with ignore_na=False it does see them
  n_failure_cases   same verdict as without; reported cases are a subset; None reports all
  raise_warning     never raises; warns <=> the plain check fails (also when the check function raises)
  groupby           the function receives exactly {k: column[g == k]} restricted by `groups`
  aliases           eq / ne / gt / ge / lt / le / between construct checks equal to, and behaving as,
                    equal_to / not_equal_to / ... / in_range
  frame_ignore_na   DataFrame-level ignore_na ignores rows with any null (docstring)
No expected values are written down: every oracle is a relation between two runs of the real code.
"""
from __future__ import annotations

import itertools
import math
import warnings

PROPERTY = "C19"
LEVEL = "model_checking"
ASSUMPTIONS = ["predicate family and value pool are finite; relations are checked on pandas and, where the option exists, polars"]

VALUES = [1, 2, 3, -1, None]
PREDS = {
    "gt1": lambda x: x > 1,
    "eq2": lambda x: x == 2,
    "in13": lambda x: x in (1, 3),
    "true": lambda x: True,
    "false": lambda x: False,
    "le2": lambda x: x <= 2,
}
INDEX_KINDS = ["default", "ints", "strings"]
LEVELS = ["series", "column", "index", "frame"]

_W = {}


def init_worker():
    import pandas as pd
    import pandera as pa

    pa.DataFrameSchema({"a": pa.Column(float)}).validate(pd.DataFrame({"a": [1.0]}))
    pa.SeriesSchema(float).validate(pd.Series([1.0]))
    import polars as pl
    import pandera.polars as pp

    pp.DataFrameSchema({"a": pp.Column(float)}).validate(pl.DataFrame({"a": [1.0]}))


def _vectors(maxlen, minlen=0):
    for L in range(minlen, maxlen + 1):
        for combo in itertools.product(VALUES, repeat=L):
            yield list(combo)


def _index(kind, n):
    import pandas as pd

    if kind == "default":
        return pd.RangeIndex(n)
    if kind == "ints":
        return pd.Index([30, 10, 20, 40][:n])
    return pd.Index(["r2", "r0", "r1", "r3"][:n], dtype=object)


def _isnull(x):
    import pandas as pd

    return x is None or x is pd.NA or (isinstance(x, float) and math.isnan(x))


def _run(level, check, vec, ikind, rep="float64"):
    """validate lazily; -> (verdict, sorted failure cases [(index, value)], warnings count, exc).
    rep: physical representation of the vector -- float64 (NaN) or the nullable-extension Int64 (pd.NA)"""
    import pandas as pd
    import pandera as pa

    n = len(vec)
    if level == "index" and n == 0:
        return "pass", [], 0, None
    dt = float if rep == "float64" else rep
    ser = pd.Series(vec, dtype=rep, index=_index(ikind, n), name="a")
    if level == "series":
        schema, obj = pa.SeriesSchema(dt, checks=check, nullable=True, name="a"), ser
    elif level == "column":
        schema, obj = pa.Column(dt, checks=check, nullable=True, name="a"), ser.to_frame()
    elif level == "frame":
        schema, obj = pa.DataFrameSchema({"a": pa.Column(dt, nullable=True)}, checks=check), ser.to_frame()
    else:  # index level: the vector is the index
        obj = pd.DataFrame({"z": pd.Series(list(range(n)), dtype="int64").values}, index=pd.Index(vec, dtype=rep, name="a"))
        schema = pa.DataFrameSchema({"z": pa.Column(int)}, index=pa.Index(dt, checks=check, nullable=True, name="a"))
    with warnings.catch_warnings(record=True) as w:
        warnings.simplefilter("always")
        try:
            schema.validate(obj, lazy=True)
            return "pass", [], sum(1 for x in w if issubclass(x.category, pa.errors.SchemaWarning)), None
        except pa.errors.SchemaErrors as e:
            fc = e.failure_cases
            rows = []
            for _, r in fc.iterrows():
                v = r["failure_case"]
                if isinstance(v, dict):
                    v = list(v.values())[0]
                rows.append((repr(r["index"]), "null" if _isnull(v) else repr(v)))
            reasons = sorted({x.reason_code.name for x in e.schema_errors})
            return "fail:" + "+".join(reasons), sorted(rows), sum(1 for x in w if issubclass(x.category, pa.errors.SchemaWarning)), None
        except Exception as e:  # noqa
            return "exc:" + type(e).__name__, [], 0, e


def _rel_element_wise(level, maxlen):
    import pandas as pd
    import pandera as pa

    viol, n = {}, 0
    for pname, f in PREDS.items():
        for vec in _vectors(maxlen):
            for ik in (INDEX_KINDS if level != "index" else ["default"]):
                n += 1
                if level == "frame":
                    ew = pa.Check(lambda row, f=f: f(row["a"]), element_wise=True, ignore_na=False)
                    vz = pa.Check(lambda df, f=f: df["a"].map(f), ignore_na=False)
                else:
                    ew = pa.Check(f, element_wise=True, ignore_na=False)
                    vz = pa.Check(lambda s, f=f: s.map(f), ignore_na=False)
                a = _run(level, ew, vec, ik)
                b = _run(level, vz, vec, ik)
                if a[0] != b[0]:
                    viol.setdefault(("element_wise.verdict", f"{level}:{pname}:{a[0]}|{b[0]}"), f"vec={vec} index={ik} element_wise={a[:2]} vectorised={b[:2]}")
                elif a[1] != b[1]:
                    viol.setdefault(("element_wise.failure_cases", f"{level}:{pname}"), f"vec={vec} index={ik} element_wise={a[1]} vectorised={b[1]}")
    return viol, n


def _rel_ignore_na(level, maxlen):
    import pandera as pa

    viol, n = {}, 0
    for pname, f in PREDS.items():
      for rep in ("float64", "Int64"):
        if rep == "Int64" and level == "index":
            continue
        lv = level if rep == "float64" else f"{level}[Int64]"
        for vec in _vectors(maxlen):
            if level == "frame":
                continue
            n += 1
            seen = []

            def rec(x, f=f, seen=seen):
                seen.append(x)
                return f(x) if not _isnull(x) else False

            r = _run(level, pa.Check(rec, element_wise=True, ignore_na=True), vec, "default", rep)
            if r[0].startswith("exc:"):
                viol.setdefault(("ignore_na.runs", f"{lv}:{r[0]}"), f"vec={vec}: {r[3]!r}")
                continue
            if any(_isnull(x) for x in seen):
                viol.setdefault(("ignore_na.function_never_sees_null", f"{lv}:element_wise"), f"vec={vec} seen={seen}")
            if any(v == "null" for _i, v in r[1]):
                viol.setdefault(("ignore_na.nulls_never_fail", f"{lv}:element_wise:{pname}"), f"vec={vec} failure_cases={r[1]}")
            nn = [v for v in vec if v is not None]
            want_fail = any(not f(float(v)) for v in nn)
            if (r[0] != "pass") != want_fail and not (level == "index" and not vec):
                viol.setdefault(("ignore_na.verdict_is_that_of_non_null_elements", f"{lv}:{pname}:{r[0]}"), f"vec={vec}")
            # vectorised: the series handed to the function has no nulls
            got = []

            def vrec(s, f=f, got=got):
                got.append(int(s.isna().sum()))
                return s.map(f)

            r2 = _run(level, pa.Check(vrec, ignore_na=True), vec, "default", rep)
            if any(g > 0 for g in got):
                viol.setdefault(("ignore_na.function_never_sees_null", f"{lv}:vectorised"), f"vec={vec} nulls_seen={got}")
            if any(v == "null" for _i, v in r2[1]):
                viol.setdefault(("ignore_na.nulls_never_fail", f"{lv}:vectorised:{pname}"), f"vec={vec} failure_cases={r2[1]}")
            # ignore_na=False: the function does see the nulls
            if None in vec:
                seen3 = []

                def rec3(x, seen3=seen3):
                    seen3.append(x)
                    return True

                _run(level, pa.Check(rec3, element_wise=True, ignore_na=False), vec, "default", rep)
                if not any(_isnull(x) for x in seen3):
                    viol.setdefault(("ignore_na.false_shows_nulls", f"{lv}:element_wise"), f"vec={vec} seen={seen3}")
    return viol, n


def _rel_n_failure_cases(level, maxlen):
    import pandera as pa

    viol, n = {}, 0
    for pname, f in PREDS.items():
        for vec in _vectors(maxlen):
            full = _run(level, pa.Check(lambda s, f=f: (s if level != "frame" else s["a"]).map(f), n_failure_cases=None), vec, "default")
            for k in (0, 1, 2):
                n += 1
                r = _run(level, pa.Check(lambda s, f=f: (s if level != "frame" else s["a"]).map(f), n_failure_cases=k), vec, "default")
                if r[0] != full[0]:
                    viol.setdefault(("n_failure_cases.verdict_unchanged", f"{level}:n={k}:{full[0]}->{r[0]}"), f"vec={vec} pred={pname}")
                elif not set(r[1]) <= set(full[1]):
                    viol.setdefault(("n_failure_cases.subset", f"{level}:n={k}"), f"vec={vec} pred={pname} full={full[1]} got={r[1]}")
                elif len(r[1]) > len(full[1]):
                    viol.setdefault(("n_failure_cases.subset", f"{level}:n={k}:more"), f"vec={vec}")
    return viol, n


def _rel_raise_warning(level, maxlen):
    import pandera as pa

    viol, n = {}, 0

    def raising(s):
        raise ValueError("user check raised")

    def col(s):
        return s if level != "frame" else s["a"]

    # shapes of the check output: an element-aligned boolean series, one scalar bool for the whole object (no per-element failure
    # cases exist then), a per-element python bool (element_wise); a function that raises
    shapes = {
        "series": lambda f: (lambda s: col(s).map(f), {}),
        "scalar": lambda f: (lambda s: bool(col(s).map(f).all()), {}),
        "element_wise": lambda f: ((lambda x: bool(f(x["a"]))) if level == "frame" else (lambda x: bool(f(x))), {"element_wise": True}),
    }
    for pname, f in list(PREDS.items()) + [("raises", None)]:
      for shape in (shapes if f is not None else ["raises"]):
        for vec in _vectors(maxlen):
            n += 1
            if f is None:
                mk = lambda **kw: pa.Check(raising, **kw)
            else:
                fn, extra = shapes[shape](f)
                mk = lambda fn=fn, extra=extra, **kw: pa.Check(fn, **extra, **kw)
            if level == "index" and not vec:
                continue
            tag = level if shape in ("series", "raises") else f"{level}[{shape}]"
            plain = _run(level, mk(), vec, "default")
            warn = _run(level, mk(raise_warning=True), vec, "default")
            if warn[0] != "pass":
                viol.setdefault(("raise_warning.never_raises", f"{tag}:{'raising_fn' if f is None else 'failing'}:{warn[0]}"), f"vec={vec} pred={pname}")
                continue
            if (plain[0] != "pass") != (warn[2] > 0):
                viol.setdefault(("raise_warning.warns_iff_fails", f"{tag}:plain={plain[0]}:warnings={warn[2]}"), f"vec={vec} pred={pname}")
    return viol, n


def _rel_groupby(maxlen):
    import pandas as pd
    import pandera as pa

    viol, n = {}, 0
    glabels = ["u", "v", "w"]
    for vec in _vectors(maxlen):
        L = len(vec)
        if L == 0:
            continue
        for gs, grep in itertools.product(itertools.product(glabels[:2], repeat=L), ("object", "category")):
            # grep == "category": the grouping column is categorical with an unused category "w" -- a group without rows
            gcol = list(gs) if grep == "object" else pd.Categorical(list(gs), categories=glabels)
            df = pd.DataFrame({"a": pd.Series(vec, dtype="float64"), "g": gcol}, index=_index("ints", L))
            present = sorted(set(gs)) if grep == "object" else list(glabels)
            for groupby in ("g", ["g"], "callable"):
                for groups in (None, ["u"], ["u", "v"]) + ((["w"], ["u", "w"]) if grep == "category" else ()):
                    if groups is not None and not set(groups) <= set(present):
                        continue  # a requested group that is absent from the data: unspecified
                    n += 1
                    got = {}

                    def rec(d, got=got):
                        got["d"] = {k: (list(v.index), [None if (isinstance(x, float) and math.isnan(x)) else x for x in v.tolist()]) for k, v in d.items()}
                        return True

                    gb = (lambda fr: fr.groupby("g", observed=False)) if groupby == "callable" else groupby
                    schema = pa.DataFrameSchema({"a": pa.Column(float, pa.Check(rec, groupby=gb, groups=groups, ignore_na=False), nullable=True),
                                                 "g": pa.Column(str) if grep == "object" else pa.Column()})
                    try:
                        with warnings.catch_warnings():
                            warnings.simplefilter("ignore")
                            schema.validate(df, lazy=True)
                    except Exception as e:  # noqa
                        viol.setdefault(("groupby.runs", f"{type(e).__name__}:{'callable' if groupby == 'callable' else type(groupby).__name__}:groups={groups}:{grep}"),
                                        f"vec={vec} g={gs}: {str(e)[:200]}")
                        continue
                    want = {}
                    for k in present:
                        if groups is not None and k not in groups:
                            continue
                        sub = df.loc[df["g"] == k, "a"]
                        want[k] = (list(sub.index), [None if (isinstance(x, float) and math.isnan(x)) else x for x in sub.tolist()])
                    if got.get("d") != want:
                        viol.setdefault(("groupby.exact_groups", f"{'callable' if groupby == 'callable' else type(groupby).__name__}:groups={groups}:{grep}"),
                                        f"vec={vec} g={gs} got={got.get('d')} want={want}")
    # raise_warning on a groupby check (its output is one bool per call: there are no per-element failure cases)
    for vec in _vectors(maxlen):
        L = len(vec)
        if L == 0:
            continue
        for gs in itertools.product(glabels[:2], repeat=L):
            df = pd.DataFrame({"a": pd.Series(vec, dtype="float64"), "g": list(gs)}, index=_index("ints", L))
            for pname, f in PREDS.items():
                n += 1
                fn = lambda d, f=f: all(bool(v.dropna().map(f).all()) for v in d.values())
                out = {}
                for rw in (False, True):
                    schema = pa.DataFrameSchema({"a": pa.Column(float, pa.Check(fn, groupby="g", raise_warning=rw), nullable=True), "g": pa.Column(str)})
                    with warnings.catch_warnings(record=True) as w:
                        warnings.simplefilter("always")
                        try:
                            schema.validate(df, lazy=True)
                            out[rw] = ("pass", sum(1 for x in w if issubclass(x.category, pa.errors.SchemaWarning)))
                        except pa.errors.SchemaErrors:
                            out[rw] = ("fail", 0)
                        except Exception as e:  # noqa
                            out[rw] = ("exc:" + type(e).__name__, 0)
                if out[True][0] != "pass":
                    viol.setdefault(("raise_warning.never_raises", f"groupby:failing:{out[True][0]}"), f"vec={vec} g={gs} pred={pname}")
                elif (out[False][0] != "pass") != (out[True][1] > 0):
                    viol.setdefault(("raise_warning.warns_iff_fails", f"groupby:plain={out[False][0]}:warnings={out[True][1]}"), f"vec={vec} g={gs} pred={pname}")
    return viol, n


def _rel_aliases(maxlen):
    import pandera as pa

    C = pa.Check
    pairs = [("eq", "equal_to", (2,)), ("ne", "not_equal_to", (2,)), ("gt", "greater_than", (1,)), ("ge", "greater_than_or_equal_to", (2,)),
             ("lt", "less_than", (3,)), ("le", "less_than_or_equal_to", (2,)), ("between", "in_range", (1, 2)),
             ("between", "in_range", (1, 3, False, True))]
    viol, n = {}, 0
    for alias, canon, args in pairs:
        for kw in ({}, {"ignore_na": False}, {"raise_warning": True}, {"n_failure_cases": 1}):
            a, c = getattr(C, alias)(*args, **kw), getattr(C, canon)(*args, **kw)
            n += 1
            if a != c:
                viol.setdefault(("aliases.equal", f"{alias}:{sorted(kw)}"), f"{a!r} != {c!r}")
            for level in ("series", "column"):
                for vec in _vectors(maxlen):
                    n += 1
                    ra = _run(level, getattr(C, alias)(*args, **kw), vec, "default")
                    rc = _run(level, getattr(C, canon)(*args, **kw), vec, "default")
                    if ra[:3] != rc[:3]:
                        viol.setdefault(("aliases.behave_alike", f"{alias}:{level}:{sorted(kw)}"), f"vec={vec} alias={ra[:3]} canonical={rc[:3]}")
    return viol, n


def _rel_frame_ignore_na(maxlen):
    import pandas as pd
    import pandera as pa

    viol, n = {}, 0
    pool = [1.0, -1.0, None]
    for L in range(1, maxlen + 1):
        for av in itertools.product(pool, repeat=L):
            for bv in itertools.product(pool, repeat=L):
                n += 1
                df = pd.DataFrame({"a": pd.Series(av, dtype="float64"), "b": pd.Series(bv, dtype="float64")})
                schema = pa.DataFrameSchema({"a": pa.Column(float, nullable=True), "b": pa.Column(float, nullable=True)},
                                            checks=pa.Check(lambda d: (d["a"] > 0) & (d["b"] > 0), ignore_na=True))
                try:
                    schema.validate(df, lazy=True)
                    got = "pass"
                except (pa.errors.SchemaErrors, pa.errors.SchemaError):
                    got = "fail"
                rows_without_null = [(x, y) for x, y in zip(av, bv) if x is not None and y is not None]
                want = "fail" if any(not (x > 0 and y > 0) for x, y in rows_without_null) else "pass"
                if got != want:
                    viol.setdefault(("frame_ignore_na.rows_with_any_null_ignored", f"{want}->{got}"), f"a={av} b={bv}")
    return viol, n


def _rel_polars(maxlen):
    import polars as pl
    import pandera as pa
    import pandera.polars as pp

    viol, n = {}, 0
    for pname, f in PREDS.items():
        for vec in _vectors(maxlen):
            if not vec:
                continue
            n += 1
            df = pl.DataFrame({"a": pl.Series("a", vec, dtype=pl.Float64)})
            exprs = {"gt1": lambda: pl.col("a") > 1, "eq2": lambda: pl.col("a") == 2, "in13": lambda: pl.col("a").is_in([1.0, 3.0]),
                     "true": lambda: pl.lit(True), "false": lambda: pl.lit(False), "le2": lambda: pl.col("a") <= 2}

            def run(check):
                schema = pp.DataFrameSchema({"a": pp.Column(float, check, nullable=True)})
                with warnings.catch_warnings(record=True) as w:
                    warnings.simplefilter("always")
                    try:
                        schema.validate(df, lazy=True)
                        return "pass", sum(1 for x in w if issubclass(x.category, pa.errors.SchemaWarning))
                    except pa.errors.SchemaErrors as e:
                        return "fail", 0
                    except Exception as e:  # noqa
                        return "exc:" + type(e).__name__, 0

            vz = pa.Check(lambda data, e=exprs[pname]: data.lazyframe.select(e()), ignore_na=True)
            nn = [v for v in vec if v is not None]
            want = "fail" if any(not f(float(v)) for v in nn) else "pass"
            r = run(vz)
            if r[0] != want and pname not in ("true", "false"):
                viol.setdefault(("polars.ignore_na.verdict_is_that_of_non_null_elements", f"{pname}:{want}->{r[0]}"), f"vec={vec}")
            rw = run(pa.Check(lambda data, e=exprs[pname]: data.lazyframe.select(e()), ignore_na=True, raise_warning=True))
            if rw[0] != "pass":
                viol.setdefault(("polars.raise_warning.never_raises", f"{rw[0]}"), f"vec={vec} pred={pname}")
            elif (r[0] != "pass") != (rw[1] > 0):
                viol.setdefault(("polars.raise_warning.warns_iff_fails", f"plain={r[0]}:warnings={rw[1]}"), f"vec={vec} pred={pname}")
    return viol, n


RELS = {
    "element_wise": lambda level, L: _rel_element_wise(level, L),
    "ignore_na": lambda level, L: _rel_ignore_na(level, L),
    "n_failure_cases": lambda level, L: _rel_n_failure_cases(level, L),
    "raise_warning": lambda level, L: _rel_raise_warning(level, L),
}


def plan(tier, seed):
    L = 3 if tier == "quick" else 4
    cases = [{"rel": r, "level": lv, "L": L} for r in RELS for lv in LEVELS]
    cases += [{"rel": "groupby", "L": min(L, 3)}, {"rel": "aliases", "L": 2 if tier == "quick" else 3}, {"rel": "frame_ignore_na", "L": 2 if tier == "quick" else 3},
              {"rel": "polars", "L": L}]
    return {"cases": cases, "exhaustive": True,
            "bounds": {"vector_length": L, "values": [str(v) for v in VALUES], "predicates": list(PREDS), "levels": LEVELS, "index_kinds": INDEX_KINDS},
            "rule": "one case = one (relation, level); states = (predicate, data vector, index kind) triples, each run under two option "
                    "variants; non-trivial = every triple (both variants execute the real check backend)"}


def run_case(case):
    rel = case["rel"]
    if rel in RELS:
        viol, n = RELS[rel](case["level"], case["L"])
    elif rel == "groupby":
        viol, n = _rel_groupby(case["L"])
    elif rel == "aliases":
        viol, n = _rel_aliases(case["L"])
    elif rel == "frame_ignore_na":
        viol, n = _rel_frame_ignore_na(case["L"])
    else:
        viol, n = _rel_polars(case["L"])
    v = [{"clause": c, "key": k, "detail": d[:700]} for (c, k), d in viol.items()]
    n = max(n, 1)
    return {"viol": v, "states": n, "transitions": n * 2, "execs": n * 2, "nontrivial": True, "nontrivial_n": n,
            "outcome": f"{rel}:{case.get('level', '-')}"}
