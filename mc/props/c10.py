"""C10 — coercion either yields conforming data or names exactly the uncoercible values.

Space: every coercible data type of the pandas engine (numpy, nullable-extension, pyarrow
primitives, datetime / timedelta / category / string / object) and the polars engine x every
container of length <= L over a mixed value pool (object-dtype containers for the mixed pool,
natively typed containers for homogeneous pools) x container kind {Series, Index, DataFrame
column through Column(coerce=True)}.
Oracle without hand-written expected values: element v is *individually coercible* iff coercing
the singleton container [v] with the real code succeeds.
  success   => same length and labels, T.check(result) passes, result[i] == singleton(c[i])[0],
               try_coerce(result) == result (idempotent; conforming data is a fixpoint)
  failure   => the exception is a ParserError and its failure cases == {(i, c[i]) : singleton fails}
"""
from __future__ import annotations

import itertools
import json
import math
import warnings

PROPERTY = "C10"
LEVEL = "model_checking"
ASSUMPTIONS = ["values outside the pool and containers longer than the bound are not covered",
               "individual coercibility is defined by the implementation's own behaviour on singleton containers"]

POOL = [1, -1, 0, 300, 1.5, 2.0, "2", "x", True, "2020-01-01", None]
POOL_NAMES = ["1", "-1", "0", "300", "1.5", "2.0", "'2'", "'x'", "True", "'2020-01-01'", "None"]

PANDAS_DTYPES = [
    "int8", "int16", "int64", "uint8", "uint64", "float32", "float64", "bool", "str", "object", "datetime64[ns]", "timedelta64[ns]",
    "Int8", "Int64", "UInt8", "Float64", "boolean", "string", "category", "category[1,x]", "complex128",
    "int64[pyarrow]", "float64[pyarrow]", "bool[pyarrow]", "string[pyarrow]",
]
POLARS_DTYPES = ["Int8", "Int64", "UInt8", "Float64", "Boolean", "Utf8", "Date", "Datetime"]

_W = {}


def init_worker():
    import pandas as pd
    import pandera as pa

    pa.DataFrameSchema({"a": pa.Column(int)}).validate(pd.DataFrame({"a": [1]}))


def _norm(v):
    import numpy as np
    import pandas as pd

    if v is None or v is pd.NA or v is pd.NaT:
        return "null"
    try:
        if isinstance(v, (float, np.floating)) and math.isnan(float(v)):
            return "null"
    except (TypeError, ValueError):
        pass
    if isinstance(v, (bool, np.bool_)):
        return f"b:{bool(v)}"
    if isinstance(v, (int, np.integer)):
        return f"n:{float(int(v))}"
    if isinstance(v, (float, np.floating)):
        return f"n:{float(v)}"
    if isinstance(v, complex):
        return f"c:{v}"
    if isinstance(v, str):
        return "s:" + v
    if hasattr(v, "isoformat"):
        return "t:" + v.isoformat()
    return f"o:{v!r}"


def _pd_dtype(name):
    from pandera.engines import pandas_engine

    if name == "category[1,x]":
        # a parametrised Category: values outside the categories are individually uncoercible
        return pandas_engine.Category(categories=[1, "x"], ordered=False)
    if name == "str":
        return pandas_engine.Engine.dtype(str)
    return pandas_engine.Engine.dtype(name)


def _coerce_pd(T, ser):
    """-> ('ok', result) | ('parser', failure_cases or None) | ('other', exc)"""
    import pandera as pa

    try:
        with warnings.catch_warnings():
            warnings.simplefilter("ignore")
            return "ok", T.try_coerce(ser.copy())
    except pa.errors.ParserError as e:
        return "parser", e.failure_cases
    except Exception as e:  # noqa
        return "other", e


def _mk(values, kind, dtype="object"):
    import pandas as pd

    s = pd.Series(list(values), dtype=dtype)
    if kind == "index":
        return pd.Index(s)
    return s


def _single_ok(T, v, dtype, cache):
    key = (_norm(v) if not isinstance(v, bool) else f"b:{v}", dtype)
    if key not in cache:
        st, res = _coerce_pd(T, _mk([v], "series", dtype))
        cache[key] = (st == "ok", (res.iloc[0] if st == "ok" else None), st)
    return cache[key]


def _explore_pandas(dtname, maxlen, kinds):
    import pandas as pd

    viol = {}

    def add(clause, key, detail):
        viol.setdefault((clause, f"pandas:{dtname}:{key}"), detail)

    try:
        T = _pd_dtype(dtname)
    except Exception as e:  # noqa
        return {("dtype_resolves", f"pandas:{dtname}"): repr(e)}, 0, 0
    cache = {}
    n = nontriv = 0
    for L in range(0, maxlen + 1):
        for idxs in itertools.product(range(len(POOL)), repeat=L):
            vals = [POOL[i] for i in idxs]
            names = "[" + ",".join(POOL_NAMES[i] for i in idxs) + "]"
            singles = [_single_ok(T, v, "object", cache) for v in vals]
            for kind in kinds:
                n += 1
                c = _mk(vals, kind)
                st, res = _coerce_pd(T, c)
                exp_fail = [(i, _norm(v)) for i, (v, s) in enumerate(zip(vals, singles)) if not s[0]]
                if exp_fail and len(exp_fail) < len(vals):
                    nontriv += 1
                cls = "".join("F" if not s[0] else "o" for s in singles)
                if st == "other":
                    add("failure_is_parser_error", f"{kind}:{type(res).__name__}", f"{names}: {res!r}")
                    continue
                if st == "ok":
                    if exp_fail:
                        # elements that fail alone but pass in company: record which pool classes
                        who = sorted({POOL_NAMES[idxs[i]] for i, _ in exp_fail})
                        add("uncoercible_element_reported", f"{kind}:accepted:{'+'.join(who)}", f"{names} coerced although {who} fail individually -> {list(res)!r}")
                        continue
                    if len(res) != len(c):
                        add("same_length", kind, f"{names}: {len(res)} != {len(c)}")
                        continue
                    if kind == "series" and not res.index.equals(c.index):
                        add("same_labels", kind, f"{names}")
                    try:
                        from pandera.engines import pandas_engine

                        chk = T.check(pandas_engine.Engine.dtype(res.dtype), res)
                        okc = bool(chk) if isinstance(chk, bool) else bool(chk.all())
                    except Exception as e:  # noqa
                        okc = False
                    if not okc:
                        add("result_passes_own_check", f"{kind}:{res.dtype}", f"{names} -> dtype {res.dtype}")
                    got = [_norm(x) for x in list(res)]
                    want = [_norm(s[1]) for s in singles]
                    if dtname.startswith("category"):
                        # categories are de-duplicated with python equality (True == 1): not pandera's doing
                        unb = lambda z: {"b:True": "n:1.0", "b:False": "n:0.0"}.get(z, z)
                        gotc, wantc = [unb(z) for z in got], [unb(z) for z in want]
                    else:
                        gotc, wantc = got, want
                    if gotc != wantc:
                        diffs = sorted({f"{POOL_NAMES[idxs[i]]}" for i in range(len(vals)) if gotc[i] != wantc[i]})
                        add("values_equal_singleton_coercion", f"{kind}:{'+'.join(diffs)}", f"{names}: container {got} vs singletons {want}")
                    st2, res2 = _coerce_pd(T, res)
                    if st2 != "ok":
                        add("idempotent", f"{kind}:second_fails", f"{names}")
                    elif [_norm(x) for x in list(res2)] != got or str(res2.dtype) != str(res.dtype):
                        add("idempotent", f"{kind}:changes", f"{names}: {list(res)!r} -> {list(res2)!r}")
                else:  # ParserError
                    if not exp_fail:
                        who = sorted({POOL_NAMES[i] for i in idxs})
                        add("coercible_container_accepted", f"{kind}:{'+'.join(who)}", f"{names}: every element coerces alone but the container raises ParserError")
                        continue
                    fc = res
                    if fc is None:
                        add("failure_cases_exact", f"{kind}:failure_cases_is_None:{cls}", f"{names}")
                        continue
                    try:
                        got_fc = sorted((int(r["index"]) if kind == "series" else int(r["index"]), _norm(r["failure_case"])) for _, r in fc.iterrows())
                    except Exception as e:  # noqa
                        add("failure_cases_exact", f"{kind}:unreadable:{type(e).__name__}", f"{names}: {fc!r}")
                        continue
                    if got_fc != sorted(exp_fail):
                        extra = sorted({x[1] for x in set(got_fc) - set(exp_fail)})
                        missing = sorted({x[1] for x in set(exp_fail) - set(got_fc)})
                        add("failure_cases_exact", f"{kind}:extra={'+'.join(extra)}:missing={'+'.join(missing)}",
                            f"{names}: reported {got_fc} expected {sorted(exp_fail)}")
    return viol, n, nontriv


# ---------------------------------------------------------------------------------------------
PL_POOLS = {
    "int": [1, -1, 300, None],
    "float": [1.5, 2.0, -1.0, None],
    "str": ["2", "x", "1.5", "2020-01-01", None],
    "bool": [True, False, None],
}


def _explore_polars(dtname, maxlen):
    import polars as pl
    import pandera as pa
    from pandera.engines import polars_engine

    viol = {}

    def add(clause, key, detail):
        viol.setdefault((clause, f"polars:{dtname}:{key}"), detail)

    T = polars_engine.Engine.dtype(getattr(pl, dtname))
    src = {"int": pl.Int64, "float": pl.Float64, "str": pl.Utf8, "bool": pl.Boolean}

    def co(vals, sdt):
        lf = pl.LazyFrame({"c": pl.Series("c", vals, dtype=sdt)})
        try:
            with warnings.catch_warnings():
                warnings.simplefilter("ignore")
                out = T.try_coerce(lf).collect()
            return "ok", out["c"].to_list(), str(out["c"].dtype)
        except pa.errors.ParserError as e:
            fc = e.failure_cases
            try:
                fcv = fc.collect() if hasattr(fc, "collect") else fc
                return "parser", sorted(map(_norm, fcv[fcv.columns[0]].to_list())), None
            except Exception as e2:  # noqa
                return "parser", None, None
        except Exception as e:  # noqa
            return "other", e, None

    n = nontriv = 0
    for pname, pool in PL_POOLS.items():
        single = {}
        for v in pool:
            st, r, _ = co([v], src[pname])
            single[_norm(v)] = (st == "ok", r[0] if st == "ok" else None)
        for L in range(0, maxlen + 1):
            for vals in itertools.product(pool, repeat=L):
                n += 1
                names = f"{pname}{list(vals)}"
                st, r, rdt = co(list(vals), src[pname])
                exp_fail = sorted(_norm(v) for v in vals if not single[_norm(v)][0])
                if exp_fail and len(exp_fail) < len(vals):
                    nontriv += 1
                if st == "other":
                    add("failure_is_parser_error", f"{pname}:{type(r).__name__}", f"{names}: {r!r}")
                elif st == "ok":
                    if exp_fail:
                        add("uncoercible_element_reported", f"{pname}:accepted:{'+'.join(sorted(set(exp_fail)))}", f"{names} -> {r}")
                        continue
                    want = [_norm(single[_norm(v)][1]) for v in vals]
                    got = [_norm(x) for x in r]
                    if got != want:
                        add("values_equal_singleton_coercion", pname, f"{names}: {got} vs {want}")
                else:
                    if not exp_fail:
                        add("coercible_container_accepted", pname, f"{names}")
                    elif r is None:
                        add("failure_cases_exact", f"{pname}:unreadable", names)
                    elif r != exp_fail:
                        extra = sorted(set(r) - set(exp_fail))
                        missing = sorted(set(exp_fail) - set(r))
                        add("failure_cases_exact", f"{pname}:extra={'+'.join(extra)}:missing={'+'.join(missing)}", f"{names}: reported {r} expected {exp_fail}")
    return viol, n, nontriv


# ---------------------------------------------------------------------------------------------
# history independence: the outcome of try_coerce(T, c) is a function of (T, c) only -- not of which other data type objects were
# used before in the same interpreter.  Alphabet: time-zone aware / naive DateTime objects (with default and with user supplied
# tz_localize_kwargs / to_datetime_kwargs), a parametrised Category and an integer type x containers holding wall-clock times at
# the edges of a DST change.  Every history runs in a FRESH interpreter and is compared with each operation run alone (also fresh).
HIST_DTYPES = {
    "dt_berlin": lambda pe: pe.DateTime(tz="Europe/Berlin"),
    "dt_berlin_nat": lambda pe: pe.DateTime(tz="Europe/Berlin", tz_localize_kwargs={"ambiguous": "NaT", "nonexistent": "NaT"}),
    "dt_berlin_shift": lambda pe: pe.DateTime(tz="Europe/Berlin", tz_localize_kwargs={"ambiguous": "NaT", "nonexistent": "shift_forward"}),
    "dt_naive_kwargs": lambda pe: pe.DateTime(tz_localize_kwargs={"ambiguous": "NaT", "nonexistent": "NaT"}),
    "dt_naive_fmt": lambda pe: pe.DateTime(to_datetime_kwargs={"format": "%Y-%m-%d %H:%M:%S"}),
    "dt_utc": lambda pe: pe.DateTime(tz="UTC"),
    "dt_tzdtype": lambda pe: pe.Engine.dtype("datetime64[ns, Europe/Berlin]"),
    "cat_1x": lambda pe: pe.Category(categories=[1, "x"], ordered=False),
    "cat_ab": lambda pe: pe.Category(categories=["a", "b"], ordered=True),
    "int64": lambda pe: pe.Engine.dtype("int64"),
}
HIST_CONTAINERS = {
    "plain": ["2021-06-01 12:00:00", "2021-01-01 00:00:00"],
    "nonexistent": ["2021-03-28 02:30:00", "2021-06-01 12:00:00"],
    "ambiguous": ["2021-10-31 02:30:00", "2021-06-01 12:00:00"],
    "text": ["x", "a"],
}
HIST_OPS = [(d, c) for d in HIST_DTYPES for c in HIST_CONTAINERS]


def _hist_run(ops):
    """(in a fresh interpreter) run the operations in order; -> one outcome per operation"""
    import pandas as pd
    from pandera.engines import pandas_engine as pe

    out = []
    for d, c in ops:
        T = HIST_DTYPES[d](pe)
        vals = HIST_CONTAINERS[c]
        ser = pd.Series(pd.to_datetime(vals)) if (c != "text" and d.startswith("dt_") and d != "dt_naive_fmt") else pd.Series(vals, dtype="object")
        st, res = _coerce_pd(T, ser)
        if st == "ok":
            out.append(["ok", [_norm(x) for x in list(res)], str(res.dtype)])
        elif st == "parser":
            out.append(["parser", sorted([str(r["index"]), _norm(r["failure_case"])] for _, r in res.iterrows()) if res is not None else None])
        else:
            out.append(["other", type(res).__name__])
    return out


def _hist_fresh(ops):
    import os
    import subprocess
    import sys

    root = os.path.dirname(os.path.dirname(os.path.dirname(os.path.abspath(__file__))))
    code = ("import sys,json,warnings;warnings.simplefilter('ignore');sys.path.insert(0,%r);from mc.props import c10;"
            "print('@@'+json.dumps(c10._hist_run(json.load(sys.stdin))))") % root
    p = subprocess.run([sys.executable, "-c", code], input=json.dumps(ops), text=True, capture_output=True,
                       env=dict(os.environ, PYTHONHASHSEED="0"), timeout=600)
    for line in p.stdout.splitlines():
        if line.startswith("@@"):
            return json.loads(line[2:])
    raise RuntimeError("history run produced no result: " + p.stderr[-1500:])


def _hist_alone():
    """every operation alone in a fresh interpreter; shared between the worker processes of one run through a scratch file keyed by
    the parent process (pid + start time), so it is never reused by another run"""
    import os
    import tempfile

    ppid = os.getppid()
    try:
        start = open(f"/proc/{ppid}/stat").read().rsplit(")", 1)[1].split()[19]
    except Exception:  # noqa
        start = "0"
    path = os.path.join(tempfile.gettempdir(), f"verif_c10_alone_{ppid}_{start}.json")
    if os.path.exists(path):
        try:
            return {tuple(k.split("|")): v for k, v in json.load(open(path)).items()}
        except Exception:  # noqa
            pass
    alone = {op: _hist_fresh([list(op)])[0] for op in HIST_OPS}
    tmp = path + f".{os.getpid()}"
    json.dump({"|".join(k): v for k, v in alone.items()}, open(tmp, "w"))
    os.replace(tmp, path)
    return alone


def _explore_history(first, depth):
    """all histories that start with `first`: depth 2 = (first, op) for every op [each pair in its own interpreter];
    depth "star" = first followed by every operation, once in alphabet order and once reversed (two interpreters)"""
    viol, n = {}, 0
    first = tuple(first)
    alone = _hist_alone()
    hists = []
    if depth == "star":
        rest = [op for op in HIST_OPS]
        hists = [[first] + rest, [first] + rest[::-1]]
    else:
        hists = [[first, op] for op in HIST_OPS]
    for h in hists:
        got = _hist_fresh([list(op) for op in h])
        for k, (op, r) in enumerate(zip(h, got)):
            n += 1
            if r != alone[tuple(op)]:
                before = sorted({f"{d}" for d, _c in h[:k]} - {op[0]}) if depth != "star" else [first[0]]
                viol.setdefault(("outcome_is_function_of_dtype_and_container", f"pandas:{op[0]}:{op[1]}:after:{'+'.join(before)}"),
                                f"history={h[:k + 1]} outcome={r} alone={alone[tuple(op)]}")
                break
    return viol, n, len(hists)


def _cleanup_scratch():
    import glob
    import os
    import tempfile

    for f in glob.glob(os.path.join(tempfile.gettempdir(), f"verif_c10_alone_{os.getpid()}_*")):
        try:
            os.unlink(f)
        except OSError:
            pass


def plan(tier, seed):
    import atexit

    atexit.register(_cleanup_scratch)  # (plan runs in the parent process of the workers)
    maxlen = 2 if tier == "quick" else 3
    kinds = ["series"]
    cases = [{"backend": "pandas", "dtype": d, "maxlen": maxlen, "kinds": kinds} for d in PANDAS_DTYPES]
    cases += [{"backend": "polars", "dtype": d, "maxlen": maxlen + 1} for d in POLARS_DTYPES]
    # histories: quick = every first operation followed by the whole alphabet (forwards and backwards); thorough = also every
    # ordered pair of operations in an interpreter of its own
    firsts = [op for op in HIST_OPS if op[1] in ("plain", "text")]
    cases += [{"backend": "pandas_history", "first": list(op), "depth": "star"} for op in (firsts if tier != "quick" else [o for o in firsts if o[1] == "plain"])]
    if tier != "quick":
        cases += [{"backend": "pandas_history", "first": list(op), "depth": 2} for op in HIST_OPS]
    return {"cases": cases, "exhaustive": True,
            "bounds": {"container_length": maxlen, "pool": POOL_NAMES, "pandas_dtypes": PANDAS_DTYPES, "polars_dtypes": POLARS_DTYPES,
                       "container_kinds": kinds},
            "rule": "one case = one data type; states = containers (all tuples over the pool up to the length bound x kind); "
                    "non-trivial = the container mixes individually coercible and uncoercible elements"}


def run_case(case):
    if case["backend"] == "pandas_history":
        viol, n, nh = _explore_history(case["first"], case["depth"])
        v = [{"clause": c, "key": k, "detail": d[:900]} for (c, k), d in viol.items()]
        return {"viol": v, "states": max(n, 1), "transitions": max(n, 1), "execs": nh + len(HIST_OPS), "nontrivial": True, "nontrivial_n": n,
                "outcome": f"history:{case['first'][0]}:{case['first'][1]}:{case['depth']}"}
    if case["backend"] == "pandas":
        viol, n, nt = _explore_pandas(case["dtype"], case["maxlen"], case["kinds"])
    else:
        viol, n, nt = _explore_polars(case["dtype"], case["maxlen"])
    v = [{"clause": c, "key": k, "detail": d[:700]} for (c, k), d in viol.items()]
    n = max(n, 1)
    return {"viol": v, "states": n, "transitions": n * 2, "execs": n * 2, "nontrivial": nt > 0, "nontrivial_n": nt,
            "outcome": f"{case['backend']}:{case['dtype']}"}
