"""C03 — whatever validate returns conforms to the schema (parse postcondition).

Space: parser-enabled edit space (coerce at column / frame / index level, default,
add_missing_columns, strict='filter', idempotent custom parsers, drop_invalid_rows) x data edits,
pandas DataFrame / Series (with and without index schema) / Column / Index / MultiIndex, and the
polars twin on DataFrame and LazyFrame.
Oracle (no expected values): if validate(S, D) returns D' then
   conforms      strip(S).validate(D') succeeds           (same schema, parsing options off)
   fixpoint      validate(S, D') returns an object equal to D'
"""
from __future__ import annotations

import copy

from mc import observe as O
from mc.props import espace
from mc.spec import schema as S
from mc.spec import table as T

PROPERTY = "C03"
LEVEL = "model_checking"
ASSUMPTIONS = ["custom parsers in the alphabet are idempotent (abs, strip): the fixpoint clause presupposes that"]


def plan(tier, seed):
    cases = espace.plan_shards(tier, parsers=True)
    pol = espace.plan_shards(tier, parsers=True, bases=["frame", "column", "frame_parsing"], extra={"backend": "polars"}, quick_pairs=())
    return {"cases": cases + pol, "exhaustive": True, "bounds": dict(espace.BOUNDS_TEXT, tier=tier),
            "rule": "state = distinct (schema, table) pair; validated eagerly and lazily; non-trivial = validate returned an "
                    "object that differs from the input (a parser changed the data)"}


def _needs_lazy(spec):
    if spec.get("drop_invalid_rows"):
        return True
    return any(c.get("drop_invalid_rows") for c in spec.get("cols", []))


def _clauses(cc, backend):
    out = []
    labels = []
    spec = cc["schema"]
    stripped = S.strip_parsing(spec)
    kind = spec.get("kind", "frame")
    if backend == "polars" and not (S.polars_expressible(spec) and T.polars_representable(cc["table"])):
        return out, "n/a", False
    changed = False
    modes = [(False, False), (True, False)] if backend == "pandas" else [(False, False), (True, False), (False, True), (True, True)]
    for lazy, lf in modes:
        tag = ("lazy" if lazy else "eager") + ((":LazyFrame" if lf else ":DataFrame") if backend == "polars" else "")
        if backend == "pandas":
            obs = O.validate_pandas(spec, cc["table"], lazy=lazy)
        else:
            obs = O.validate_polars(spec, cc["table"], lazy=lazy, as_lazyframe=lf)
        labels.append(obs["outcome"])
        if obs["outcome"] != "ok":
            continue
        res = obs["_result_obj"]
        if obs["result"] != obs["input_before"]:
            changed = True
        # (1) conforms to strip(S)
        if backend == "pandas":
            s2 = S.build_pandas(stripped)
            o2 = _revalidate_pandas(s2, res, lazy=False)
        else:
            s2 = S.build_polars(stripped)
            o2 = _revalidate_polars(s2, res)
        if o2["outcome"] != "ok":
            st = _structural(spec, backend, kind, o2)
            if st is not None:
                out.append((st[0], "@" + st[1], f"result={obs['result']} second={o2}"))
            else:
                out.append(("conforms", f"{backend}:{kind}:{tag}:{o2['outcome']}:{o2.get('reason')}:{o2.get('check')}",
                            f"result={obs['result']} second={o2}"))
            continue
        # (2) fixpoint
        if backend == "pandas":
            o3 = _revalidate_pandas(S.build_pandas(spec), res, lazy=lazy)
        else:
            o3 = _revalidate_polars(S.build_polars(spec), res, lazy=lazy)
        if o3["outcome"] != "ok":
            out.append(("fixpoint", f"{backend}:{kind}:{tag}:{o3['outcome']}:{o3.get('reason')}:{o3.get('check')}", f"{o3}"))
        elif o3["snap"] != obs["result"]:
            out.append(("fixpoint", f"{backend}:{kind}:{tag}:changed", f"first={obs['result']} second={o3['snap']}"))
    # (3) an unordered MultiIndex component: the order in which the data carries its (uniquely named) levels is immaterial --
    # same outcome, and the same parsed object up to that order, as for the data with its levels in the schema's order
    six, tix = spec.get("index") if kind == "frame" else None, cc["table"].get("index")
    if (backend == "pandas" and six is not None and six.get("kind") == "multi" and six.get("ordered") is False
            and tix is not None and tix.get("kind") == "multi"):
        snames = [S.full(l)["name"] for l in six["levels"]]
        tnames = [l.get("name") for l in tix["levels"]]
        if None not in snames and len(set(snames)) == len(snames) and sorted(map(str, tnames)) == sorted(map(str, snames)) and tnames != snames:
            t2 = copy.deepcopy(cc["table"])
            t2["index"]["levels"] = [next(l for l in tix["levels"] if l.get("name") == nm) for nm in snames]
            for lazy in (False, True):
                a = O.validate_pandas(spec, cc["table"], lazy=lazy)
                b = O.validate_pandas(spec, t2, lazy=lazy)
                tag = "lazy" if lazy else "eager"
                if a["outcome"] != b["outcome"]:
                    out.append(("multiindex_level_order_immaterial", f"{tag}:{b['outcome']}(schema order)->{a['outcome']}:{a.get('reason')}", f"data order={tnames}: {a.get('msg') or a.get('error')}"))
                elif a["outcome"] == "ok":
                    ra = a["_result_obj"]
                    try:
                        same = T.snap_pandas(ra.reorder_levels(snames)) == b["result"]
                    except Exception as e:  # noqa
                        same = False
                    if not same:
                        out.append(("multiindex_level_order_immaterial", f"{tag}:parsed_object_differs", f"{a['result']} vs {b['result']}"))
    return out, "/".join(labels), changed


FRAME_LEVEL_REASONS = ("WRONG_DATATYPE", "COLUMN_NOT_IN_DATAFRAME", "COLUMN_NOT_IN_SCHEMA", "COLUMN_NOT_ORDERED", "DUPLICATES")


def _drop_on(spec):
    return bool(spec.get("drop_invalid_rows")) or any(c.get("drop_invalid_rows") for c in spec.get("cols", []))


def _structural(spec, backend, kind, o2):
    """Known structural defects get a fixed key so that any *other* non-conforming output is still new."""
    if o2["outcome"] not in ("SchemaError", "SchemaErrors"):
        return None
    if backend == "polars" and _drop_on(spec) and o2.get("reason") in FRAME_LEVEL_REASONS:
        return ("conforms.polars_drop_invalid_rows_swallows_frame_level_error", f"polars:{o2['reason']}")
    if (backend == "pandas" and kind == "frame" and o2.get("check") == "multiple_fields_uniqueness"
            and any(c.get("parsers") for c in spec.get("cols", []))):
        return ("conforms.column_parser_runs_after_joint_uniqueness", "pandas")
    if backend == "pandas" and kind == "index" and spec.get("default") is not None and o2.get("reason") == "WRONG_DATATYPE":
        return ("conforms.index_default_not_written_back", "pandas")
    return None


def _revalidate_pandas(schema, obj, lazy=False):
    import pandera as pa

    try:
        r = schema.validate(obj, lazy=lazy)
        return {"outcome": "ok", "snap": T.snap_pandas(r)}
    except pa.errors.SchemaError as e:
        return {"outcome": "SchemaError", "reason": e.reason_code.name if e.reason_code else None,
                "check": O.check_id(e.check, e.check_index), "msg": str(e)[:300]}
    except pa.errors.SchemaErrors as e:
        e0 = e.schema_errors[0]
        return {"outcome": "SchemaErrors", "reason": e0.reason_code.name if e0.reason_code else None,
                "check": O.check_id(e0.check, e0.check_index), "msg": str(e0)[:300]}
    except Exception as e:  # noqa
        return {"outcome": "leak", "reason": type(e).__name__, "check": O.pandera_frame_of(e), "msg": str(e)[:300]}


def _revalidate_polars(schema, obj, lazy=False):
    import pandera as pa

    try:
        r = schema.validate(obj, lazy=lazy)
        return {"outcome": "ok", "snap": T.snap_polars(r)}
    except pa.errors.SchemaError as e:
        return {"outcome": "SchemaError", "reason": e.reason_code.name if e.reason_code else None,
                "check": O.check_id(e.check, e.check_index), "msg": str(e)[:300]}
    except pa.errors.SchemaErrors as e:
        e0 = e.schema_errors[0]
        return {"outcome": "SchemaErrors", "reason": e0.reason_code.name if e0.reason_code else None,
                "check": O.check_id(e0.check, e0.check_index), "msg": str(e0)[:300]}
    except Exception as e:  # noqa
        return {"outcome": "leak", "reason": type(e).__name__, "check": O.pandera_frame_of(e), "msg": str(e)[:300]}


def make_oracle(backend):
    def oracle(cc):
        cl, label, changed = _clauses(cc, backend)
        viol = []
        for clause, key, detail in cl:
            if key.startswith("@"):
                viol.append({"clause": clause, "key": key[1:], "detail": detail[:1500]})
                continue

            def still(c2, clause=clause, key=key):
                return any(c == clause and k == key for c, k, _ in _clauses(c2, backend)[0])
            m = espace.minimise(cc, still)
            viol.append({"clause": clause, "key": key + "|" + espace.signature(m), "detail": detail[:1500]})
        return viol, changed, backend + ":" + label
    return oracle


_ORACLES = {"pandas": make_oracle("pandas"), "polars": make_oracle("polars")}


def run_case(case):
    return espace.run_shard(case, _ORACLES[case.get("backend", "pandas")])
