"""C04 — validation never modifies the caller's data unless inplace=True; result kind == input kind.

Space: the parser-enabled edit space (coerce / default / add_missing_columns / strict='filter' /
custom parsers / drop_invalid_rows switched on in every combination <= ks) x data edits, for every
schema entry point (DataFrameSchema, SeriesSchema, Column, Index, MultiIndex; polars
DataFrameSchema on DataFrame and LazyFrame, polars Column) x {eager, lazy}.  The three outcome
classes pass / eager fail / lazy fail arise from the data edits.
Oracle: deep value snapshot of the argument before == after; type(result) matches the input.
"""
from __future__ import annotations

from mc import observe as O
from mc.props import espace
from mc.spec import schema as S
from mc.spec import table as T

PROPERTY = "C04"
LEVEL = "model_checking"
ASSUMPTIONS = ["snapshots compare observable state (values, dtypes, labels, index, names, attrs), not buffer identity"]


def plan(tier, seed):
    cases = espace.plan_shards(tier, parsers=True)
    pol = espace.plan_shards(tier, parsers=True, bases=["frame", "column", "column_str", "frame_parsing"], extra={"backend": "polars"}, quick_pairs=())
    return {"cases": cases + pol, "exhaustive": True, "bounds": dict(espace.BOUNDS_TEXT, tier=tier),
            "rule": "state = distinct (schema, table) pair, validated eagerly and lazily with inplace=False; non-trivial = a "
                    "parsing option is on, or validation failed (the failure paths are where aliasing hides)"}


def _expected_type(kind):
    return {"series": "Series"}.get(kind, "DataFrame")


def _clauses(cc, backend):
    out = []
    labels = []
    kind = cc["schema"].get("kind", "frame")
    if backend == "pandas":
        for lazy in (False, True):
            obs = O.validate_pandas(cc["schema"], cc["table"], lazy=lazy)
            labels.append(obs["outcome"])
            tag = "lazy" if lazy else "eager"
            if obs["input_before"] != obs["input_after"]:
                diff = _diff(obs["input_before"], obs["input_after"])
                out.append(("input_unchanged", f"pandas:{kind}:{tag}:{obs['outcome']}:{diff}",
                            f"before={obs['input_before']} after={obs['input_after']}"))
            if obs["outcome"] == "ok" and obs["result_type"] != _expected_type(kind):
                out.append(("result_kind", f"pandas:{kind}:{obs['result_type']}", ""))
    else:
        if not (S.polars_expressible(cc["schema"]) and T.polars_representable(cc["table"])):
            return out, "n/a"
        for lazy in (False, True):
            for lf in (False, True):
                obs = O.validate_polars(cc["schema"], cc["table"], lazy=lazy, as_lazyframe=lf)
                labels.append(obs["outcome"])
                tag = ("lazy" if lazy else "eager") + (":LazyFrame" if lf else ":DataFrame")
                if obs["input_before"] != obs["input_after"]:
                    out.append(("input_unchanged", f"polars:{kind}:{tag}:{obs['outcome']}", f"before={obs['input_before']} after={obs['input_after']}"))
                if obs["outcome"] == "ok" and obs["result_type"] != obs["input_type"]:
                    out.append(("result_kind", f"polars:{kind}:{obs['input_type']}->{obs['result_type']}", ""))
    return out, "/".join(labels)


def _diff(a, b):
    """which part of the snapshot changed"""
    parts = []
    for k in sorted(set(a) | set(b)):
        if a.get(k) != b.get(k):
            if k == "cols":
                an, bn = [c["name"] for c in a["cols"]], [c["name"] for c in b["cols"]]
                if an != bn:
                    parts.append("columns")
                elif [c["dtype"] for c in a["cols"]] != [c["dtype"] for c in b["cols"]]:
                    parts.append("dtypes")
                else:
                    parts.append("values")
            else:
                parts.append(k)
    return "+".join(parts)


def _parsing_on(spec):
    return S.strip_parsing(spec) != spec


def make_oracle(backend):
    def oracle(cc):
        cl, label = _clauses(cc, backend)
        viol = []
        for clause, key, detail in cl:
            def still(c2, clause=clause, key=key):
                return any(c == clause and k == key for c, k, _ in _clauses(c2, backend)[0])
            m = espace.minimise(cc, still)
            viol.append({"clause": clause, "key": key + "|" + espace.signature(m), "detail": detail[:1500]})
        nontrivial = _parsing_on(cc["schema"]) or "Schema" in label
        return viol, nontrivial, backend + ":" + label
    return oracle


_ORACLES = {"pandas": make_oracle("pandas"), "polars": make_oracle("polars")}


def run_case(case):
    return espace.run_shard(case, _ORACLES[case.get("backend", "pandas")])
