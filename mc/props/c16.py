"""C16 — a DataFrameModel means the same as the DataFrameSchema it describes.

Programs are *class hierarchies*, generated from a JSON hierarchy spec: a base chain A <- B <- C
(thorough: also a diamond A <- B2, C2 <- D) plus every combination of <= k edits from an alphabet of
class-body features (Field keywords for every built-in check, flags, alias, regex, Optional, Index
fields, annotation spellings, Config options defined / inherited / overridden, Config extras, @check /
@dataframe_check / @parser / @dataframe_parser methods defined, overridden by name, with name=/regex=).
For each hierarchy

  * the classes are created by exec() of generated source (replay files are readable Python),
  * an independent reference compiler (this file, ~150 lines, written from docs/source/dataframe_models.md)
    turns the same spec into an object-API schema spec, built by mc.spec.schema,
  * an explicit-state search runs over the *histories* of {define X, X.to_schema(), X.validate(D)} events
    that respect definition order (all linear extensions; states = canonical (defined, compiled, class-level
    mutable state) triples, deduplicated), every history replayed on freshly exec'd classes.

Oracle (every state / transition):
  schema_equals_reference   projection(M.to_schema()) == projection(reference schema) for every class of the
                            hierarchy, whatever happened before (up to check-function identity)
  init_error_agrees         hierarchies the docs declare invalid raise SchemaInitError, valid ones do not raise
  verdict_equals_reference  outcome class, parsed result and lazy failure report of M.validate(D) equal those of
                            the reference schema on every probe table (conforming table + every single data edit)
  to_schema_stable          a second to_schema() gives an equal projection; schema objects handed out earlier
                            still fingerprint the same after later events (children never alter parents)
"""
from __future__ import annotations

import copy
import itertools
import json
import warnings

from mc.ref import fingerprint as FP
from mc.spec import edits as E
from mc.spec import schema as S
from mc.spec import table as T

PROPERTY = "C16"
LEVEL = "model_checking"
ASSUMPTIONS = [
    "reference compiler (mc/props/c16.py:compile_ref) encodes docs/source/dataframe_models.md; schema `name` is left out of the "
    "comparison when a Config subclasses the parent's Config without naming itself (undocumented)",
    "check / parser method bodies are generated from one text for the model and the reference, so function identity is the only difference",
]

DISPATCH_ORDER = ["eq", "ne", "gt", "ge", "lt", "le", "in_range", "between", "isin", "notin", "str_contains", "str_endswith",
                  "str_matches", "str_length", "str_startswith", "unique_values_eq"]
CHECK_OPTS = ("ignore_na", "raise_warning", "n_failure_cases")
FLAG_DEFAULTS = {"nullable": False, "unique": False, "coerce": False, "regex": False, "alias": None, "check_name": None,
                 "title": None, "description": None, "default": None, "metadata": None}
CONFIG_KEYS = ["dtype", "coerce", "strict", "name", "ordered", "unique", "title", "description", "unique_column_names",
               "add_missing_columns", "drop_invalid_rows"]
MI_KEYS = ["multiindex_name", "multiindex_coerce", "multiindex_unique", "multiindex_strict", "multiindex_ordered"]

PY_OF = {"int64": "int", "float64": "float", "str": "str"}

# method bodies: name -> (pandas source, polars source or None)
BODIES = {
    "gt0": ("return s > 0", "return s.lazyframe.select(pl.col(s.key) > 0)"),
    "lt3": ("return s < 3", "return s.lazyframe.select(pl.col(s.key) < 3)"),
    "ne2": ("return s != 2", "return s.lazyframe.select(pl.col(s.key) != 2)"),
    "elem_gt0": ("return s > 0", None),                # used with element_wise=True: s is one value
    "len_le1": ("return s.str.len() <= 1", "return s.lazyframe.select(pl.col(s.key).str.len_chars() <= 1)"),
    "df_rows_le3": ("return len(s) <= 3", "return s.lazyframe.select(pl.len() <= 3)"),
    "df_first_gt0": ("return s.iloc[:, 0] > 0", "return s.lazyframe.select(pl.first() > 0)"),
    # reads a private class attribute through `cls`: the check means something different in a subclass that overrides `_limit`
    "lt_cls_limit": ("return s < cls._limit", "return s.lazyframe.select(pl.col(s.key) < cls._limit)"),
    "p_add1": ("return s + 1", None),
    "p_abs": ("return s.abs()", None),
    "p_neg": ("return -s", None),
    "dfp_head2": ("return s.head(2)", None),
    "dfp_fill0": ("return s.fillna(0)", None),
}
_FN_CACHE = {}


def plain_fn(body, backend, limit=None):
    key = (body, backend, limit)
    if key not in _FN_CACHE:
        src = BODIES[body][0 if backend == "pandas" else 1]
        ns = {}
        # the reference function gets the class attribute value the model class resolves through its MRO
        exec("import polars as pl\nclass cls:\n    _limit = %r\ndef f(s):\n    %s" % (limit, src), ns)  # noqa
        _FN_CACHE[key] = ns["f"]
    return _FN_CACHE[key]


# ---------------------------------------------------------------------------------------------
# hierarchy specs
def ann(dtype, style="series", optional=False):
    return {"dtype": dtype, "style": style, "optional": optional}


def fld(attr, a=None, field=None):
    return {"attr": attr, "ann": a, "field": field}


def klass(name, bases, fields=(), config=None, config_base="own", methods=(), attrs=None):
    return {"name": name, "bases": list(bases), "fields": list(fields), "config": config, "config_base": config_base,
            "methods": list(methods), "attrs": dict(attrs or {})}


def base_hierarchy(shape, backend):
    style = "series" if backend == "pandas" else "plain"
    A = klass("A", [], [fld("a", ann("int64", style), {"ge": 0}), fld("b", ann("str", style), None)])
    if shape == "chain":
        B = klass("B", ["A"], [fld("c", ann("float64", style), {"nullable": True})])
        C = klass("C", ["B"])
        return {"backend": backend, "shape": shape, "classes": [A, B, C]}
    if shape == "diamond":
        B = klass("B", ["A"], [fld("c", ann("float64", style), {"nullable": True})])
        C = klass("C", ["A"])
        D = klass("D", ["B", "C"])
        return {"backend": backend, "shape": shape, "classes": [A, B, C, D]}
    raise AssertionError(shape)


INT_OPTS = [{"ge": 2}, {"gt": 1}, {"le": 2}, {"lt": 3}, {"eq": 1}, {"ne": 2}, {"isin": [1, 2]}, {"notin": [3]},
            {"in_range": {"min_value": 1, "max_value": 2}}, {"ge": 1, "le": 2}, {"ge": 2, "ignore_na": False},
            {"le": 2, "raise_warning": True}, {"le": 1, "n_failure_cases": 1}]
STR_OPTS = [{"str_contains": "y"}, {"str_endswith": "z"}, {"str_length": {"min_value": 1, "max_value": 1}},
            {"str_matches": "^x"}, {"str_startswith": "x"}, {"isin": ["x", "yy"]}]
FLAG_OPTS = [{"nullable": True}, {"unique": True}, {"coerce": True}, {"alias": "a_alias"}, {"title": "T", "description": "D"},
             {"metadata": {"k": 1}}, {"default": 7, "nullable": True}]
CONFIG_OPTS = [{"strict": True}, {"strict": "filter"}, {"coerce": True}, {"ordered": True}, {"unique": ["a"]}, {"name": "custom_name"},
               {"title": "ST", "description": "SD"}, {"add_missing_columns": True}, {"drop_invalid_rows": True},
               {"unique_column_names": True}, {"dtype": "int64"}, {"notin": [4]}, {"strict": False}, {"coerce": False}]


def _methods_alphabet(backend):
    m = [
        {"kind": "check", "mname": "chk", "fields": ["a"], "regex": False, "kwargs": {}, "body": "gt0"},
        {"kind": "check", "mname": "chk", "fields": ["a"], "regex": False, "kwargs": {}, "body": "lt3"},
        {"kind": "check", "mname": "chk", "fields": ["a"], "regex": False, "kwargs": {"name": "named_check"}, "body": "lt3"},
        {"kind": "check", "mname": "chk2", "fields": ["a"], "regex": False, "kwargs": {"name": "named_check2"}, "body": "ne2"},
        {"kind": "check", "mname": "chk", "fields": ["a", "c"], "regex": False, "kwargs": {}, "body": "lt3"},
        {"kind": "check", "mname": "chk_rx", "fields": ["^[ac]$"], "regex": True, "kwargs": {}, "body": "lt3"},
        {"kind": "check", "mname": "chk_b", "fields": ["b"], "regex": False, "kwargs": {"raise_warning": True}, "body": "len_le1"},
        {"kind": "check", "mname": "chk", "fields": ["a"], "regex": False, "kwargs": {}, "body": "lt_cls_limit"},
        {"kind": "check", "mname": "chk_missing", "fields": ["zz"], "regex": False, "kwargs": {}, "body": "gt0"},
        {"kind": "dataframe_check", "mname": "dfchk", "fields": [], "regex": False, "kwargs": {}, "body": "df_rows_le3"},
        {"kind": "dataframe_check", "mname": "dfchk", "fields": [], "regex": False, "kwargs": {"name": "named_df"}, "body": "df_first_gt0"},
    ]
    if backend == "pandas":
        m += [
            {"kind": "check", "mname": "chk", "fields": ["a"], "regex": False, "kwargs": {"element_wise": True}, "body": "elem_gt0"},
            {"kind": "parser", "mname": "prs", "fields": ["a"], "regex": False, "kwargs": {}, "body": "p_add1"},
            {"kind": "parser", "mname": "prs", "fields": ["a"], "regex": False, "kwargs": {}, "body": "p_neg"},
            {"kind": "parser", "mname": "prs2", "fields": ["a"], "regex": False, "kwargs": {"name": "named_parser"}, "body": "p_abs"},
            {"kind": "dataframe_parser", "mname": "dfprs", "fields": [], "regex": False, "kwargs": {}, "body": "dfp_head2"},
            {"kind": "dataframe_parser", "mname": "dfprs", "fields": [], "regex": False, "kwargs": {}, "body": "dfp_fill0"},
        ]
    return m


CORE_INT = [{"ge": 2}, {"le": 2}]
CORE_FLAGS = [{"nullable": True}, {"alias": "a_alias"}, {"unique": True}]
CORE_CONFIG = [{"strict": True}, {"coerce": True}, {"name": "custom_name"}, {"notin": [4]}, {"strict": False}]


def hierarchy_edits(h, core=False):
    """every single edit applicable to hierarchy h: [level, kind, payload...] (JSON lists).
    core=True: the reduced option alphabet used for pairs in the quick tier"""
    backend = h["backend"]
    style = "series" if backend == "pandas" else "plain"
    eds = []
    declared_upto = {}
    for li, c in enumerate(h["classes"]):
        L = c["name"]
        own = {f["attr"] for f in c["fields"]}
        inherited = _inherited_attrs(h, L)
        for attr, dt in sorted({**inherited, **{f["attr"]: f["ann"]["dtype"] for f in c["fields"] if f["ann"]}}.items()):
            opts = (INT_OPTS if dt == "int64" else STR_OPTS if dt == "str" else [{"ge": 2.5}, {"lt": 3.5}]) + FLAG_OPTS
            if attr != "a":
                opts = opts[:3] + FLAG_OPTS[:3]
            if core:
                opts = (CORE_INT + CORE_FLAGS) if attr == "a" else ([opts[0]] + CORE_FLAGS[:1])
            for o in opts:
                o = dict(o)
                if "alias" in o:
                    o["alias"] = attr + "_alias"
                if attr in own:
                    eds.append([L, "field_opt", attr, o])
                else:
                    eds.append([L, "override", attr, "reann_field", o])
                    if attr == "a":
                        eds.append([L, "override", attr, "assign_only", o])
            if attr not in own:
                eds.append([L, "override", attr, "reann", None])
                eds.append([L, "override", attr, "retype", None])
            else:
                eds.append([L, "restyle", attr, "plain" if style == "series" else "series"])
                eds.append([L, "restyle", attr, "optional"])
        eds.append([L, "add_field", {"attr": "d", "dtype": "int64", "field": None}])
        eds.append([L, "add_field", {"attr": "d", "dtype": "int64", "field": {"ge": 2}}])
        eds.append([L, "add_field", {"attr": "d", "dtype": "int64", "optional": True, "field": None}])
        eds.append([L, "add_field", {"attr": "r", "dtype": "int64", "field": {"alias": "r_.+", "regex": True, "ge": 1}}])
        if backend == "pandas":
            eds.append([L, "add_index", 1, None])
            eds.append([L, "add_index", 1, True])
            eds.append([L, "add_index", 2, None])
            eds.append([L, "add_index", 1, "optional"])
        for o in (CORE_CONFIG if core else CONFIG_OPTS):
            eds.append([L, "config", o, "own"])
            if c["bases"] and o in (CORE_CONFIG[:2] if core else CONFIG_OPTS[:4]):
                eds.append([L, "config", o, "parent"])
        if backend == "pandas":
            eds.append([L, "config", {"multiindex_name": "mi", "multiindex_strict": True}, "own"])
        for m in _methods_alphabet(backend):
            eds.append([L, "method", m])
        eds.append([L, "attr", {"_limit": 2}])
    return eds


def _inherited_attrs(h, cname):
    """attr -> dtype for annotated attributes of the strict ancestors of cname"""
    out = {}
    for an in reversed(mro_names(h, cname)[1:]):
        for f in _cls(h, an)["fields"]:
            if f["ann"] is not None:
                out[f["attr"]] = f["ann"]["dtype"]
    return out


def _cls(h, name):
    for c in h["classes"]:
        if c["name"] == name:
            return c
    raise KeyError(name)


def apply_edit(h, e):
    h = copy.deepcopy(h)
    c = _cls(h, e[0])
    backend = h["backend"]
    style = "series" if backend == "pandas" else "plain"
    kind = e[1]
    if kind == "field_opt":
        f = next(f for f in c["fields"] if f["attr"] == e[2])
        f["field"] = dict(f["field"] or {}, **e[3])
    elif kind == "override":
        attr, form, o = e[2], e[3], e[4]
        if any(f["attr"] == attr for f in c["fields"]):
            return None
        dt = _inherited_attrs(h, c["name"]).get(attr)
        if dt is None:
            return None
        if form == "reann":
            c["fields"].append(fld(attr, ann(dt, style), None))
        elif form == "reann_field":
            c["fields"].append(fld(attr, ann(dt, style), dict(o)))
        elif form == "assign_only":
            c["fields"].append(fld(attr, None, dict(o)))
        elif form == "retype":
            c["fields"].append(fld(attr, ann("float64" if dt != "float64" else "int64", style), None))
    elif kind == "restyle":
        f = next(f for f in c["fields"] if f["attr"] == e[2])
        if f["ann"] is None:
            return None
        if e[3] == "optional":
            f["ann"] = dict(f["ann"], optional=True)
        else:
            f["ann"] = dict(f["ann"], style=e[3])
    elif kind == "add_field":
        p = e[2]
        if any(f["attr"] == p["attr"] for f in c["fields"]):
            return None
        c["fields"].append(fld(p["attr"], ann(p["dtype"], style, p.get("optional", False)), copy.deepcopy(p.get("field"))))
    elif kind == "add_index":
        if any(f["attr"].startswith("idx") for f in c["fields"]):
            return None
        n, cn = e[2], e[3]
        if cn == "optional":
            c["fields"].append(fld("idx", ann("int64", "index", True), None))
        else:
            c["fields"].append(fld("idx", ann("int64", "index"), {"ge": 0, "check_name": cn} if cn is not None else {"ge": 0}))
        if n == 2:
            c["fields"].append(fld("idx2", ann("str", "index"), None))
    elif kind == "config":
        cfg = dict(c["config"] or {})
        cfg.update(e[2])
        c["config"] = cfg
        c["config_base"] = e[3]
    elif kind == "method":
        m = copy.deepcopy(e[2])
        if any(x["mname"] == m["mname"] for x in c["methods"]):
            return None
        c["methods"].append(m)
        if m["body"] == "lt_cls_limit":
            c.setdefault("attrs", {}).setdefault("_limit", 3)
    elif kind == "attr":
        c.setdefault("attrs", {}).update(e[2])
    else:
        raise AssertionError(e)
    return h


def edit_target(e):
    k = e[1]
    if k in ("field_opt", "override", "restyle"):
        return "field:" + e[2]
    if k == "add_field":
        return "field:" + e[2]["attr"]
    if k == "add_index":
        return "index"
    if k == "config":
        return "config"
    if k == "method":
        m = e[2]
        return "method:" + m["kind"].replace("dataframe_", "df") + ":" + m["mname"]
    if k == "attr":
        return "method:check:chk"    # the class attribute only matters through the check that reads it
    return k


def edit_kind(e):
    k = e[1]
    if k == "field_opt":
        return f"{e[0]}.field_opt:{'+'.join(sorted(e[3]))}"
    if k == "override":
        return f"{e[0]}.override:{e[3]}" + (":" + "+".join(sorted(e[4])) if e[4] else "")
    if k == "restyle":
        return f"{e[0]}.restyle:{e[3]}"
    if k == "add_field":
        return f"{e[0]}.add_field:{e[2]['attr']}" + (":opt" if e[2].get("optional") else "") + (":" + "+".join(sorted(e[2]["field"])) if e[2].get("field") else "")
    if k == "add_index":
        return f"{e[0]}.add_index:{e[2]}:{e[3]}"
    if k == "config":
        return f"{e[0]}.config[{e[3]}]:{'+'.join(f'{a}={b}' for a, b in sorted(e[2].items()))}"
    if k == "attr":
        return f"{e[0]}.attr:{'+'.join(sorted(e[2]))}"
    if k == "method":
        m = e[2]
        return f"{e[0]}.{m['kind']}:{m['mname']}:{m['body']}" + (":" + "+".join(sorted(m["kwargs"])) if m["kwargs"] else "") + (":regex" if m["regex"] else "")
    return str(e)


def mro_names(h, cname):
    built = {}
    for c in h["classes"]:
        built[c["name"]] = type(c["name"], tuple(built[b] for b in c["bases"]) or (object,), {})
    return [k.__name__ for k in built[cname].__mro__ if k is not object]


# ---------------------------------------------------------------------------------------------
# source generation
def _lit(v):
    return repr(v)


def class_source(h, c):
    backend = h["backend"]
    lines = [f"class {c['name']}({', '.join(c['bases']) or 'pa.DataFrameModel'}):"]
    body = []
    for k_, v_ in (c.get("attrs") or {}).items():
        body.append(f"{k_} = {_lit(v_)}")
    for f in c["fields"]:
        rhs = ""
        if f["field"] is not None:
            rhs = " = pa.Field(" + ", ".join(f"{k}={_lit(v)}" for k, v in f["field"].items()) + ")"
        if f["ann"] is None:
            body.append(f"{f['attr']}{rhs}")
            continue
        a = f["ann"]
        py = PY_OF[a["dtype"]]
        t = {"series": f"Series[{py}]", "plain": py, "index": f"Index[{py}]"}[a["style"]]
        if a["optional"]:
            t = f"Optional[{t}]"
        body.append(f"{f['attr']}: {t}{rhs}")
    for m in c["methods"]:
        deco = {"check": "pa.check", "dataframe_check": "pa.dataframe_check", "parser": "pa.parser",
                "dataframe_parser": "pa.dataframe_parser"}[m["kind"]]
        args = [_lit(x) for x in m["fields"]]
        if m["regex"]:
            args.append("regex=True")
        args += [f"{k}={_lit(v)}" for k, v in m["kwargs"].items()]
        if m["kind"] in ("dataframe_check",) and not args:
            body.append(f"@{deco}")
        elif m["kind"] == "dataframe_parser":
            body.append(f"@{deco}")
        else:
            body.append(f"@{deco}({', '.join(args)})")
        body.append(f"def {m['mname']}(cls, s):")
        body.append("    " + BODIES[m["body"]][0 if backend == "pandas" else 1])
    if c["config"] is not None:
        parent = ""
        if c["config_base"] == "parent" and c["bases"]:
            parent = f"({c['bases'][0]}.Config)"
        body.append(f"class Config{parent}:")
        for k, v in c["config"].items():
            body.append(f"    {k} = {_lit(v)}")
        if not c["config"]:
            body.append("    pass")
    if not body:
        body = ["pass"]
    return "\n".join(lines + ["    " + b for b in body]) + "\n"


PREAMBLE = {
    "pandas": "from typing import Optional\nimport pandas as pd\nimport pandera as pa\nfrom pandera.typing import Series, Index\n",
    "polars": "from typing import Optional\nimport polars as pl\nimport pandera.polars as pa\nfrom pandera.typing.polars import Series\n",
}


def full_source(h):
    return PREAMBLE[h["backend"]] + "\n".join(class_source(h, c) for c in h["classes"])


# ---------------------------------------------------------------------------------------------
# reference compiler: hierarchy spec -> schema spec (mc.spec.schema vocabulary)
class RefInitError(Exception):
    pass


class RefUnspecified(Exception):
    pass


def _builtin_checks(field):
    out = []
    kw = {k: field[k] for k in CHECK_OPTS if k in field}
    for k in DISPATCH_ORDER:
        if k in field and field[k] is not None:
            v = field[k]
            if k == "in_range":
                out.append({"k": "in_range", "a": [v["min_value"], v["max_value"]], "kw": dict(kw)})
            elif k == "str_length":
                out.append({"k": "str_length", "a": [v.get("min_value"), v.get("max_value")], "kw": dict(kw)})
            else:
                out.append({"k": k, "a": [v], "kw": dict(kw)})
    return out


def compile_ref(h, cname):
    """-> (schema spec, set of unspecified top-level keys).  Raises RefInitError where the docs say the model is invalid."""
    backend = h["backend"]
    mro = mro_names(h, cname)
    anns, vals = {}, {}
    for an in reversed(mro):
        for f in _cls(h, an)["fields"]:
            if f["ann"] is not None:
                anns[f["attr"]] = f["ann"]
                vals[f["attr"]] = dict(f["field"] or {})
            else:
                vals[f["attr"]] = dict(f["field"] or {})
    if [k for k in vals if k not in anns]:
        raise RefInitError("missing annotations")
    fields = {}   # resolved name -> (ann, field)
    for attr, a in anns.items():
        fi = dict(FLAG_DEFAULTS, **vals[attr])
        name = fi["alias"] if fi["alias"] is not None else attr
        fields[name] = (a, fi)
    names = list(fields)
    # method checks / parsers along the MRO, leaf first, overridden by method name
    col_checks, col_parsers, df_checks, df_parsers = {}, {}, [], []
    for kind in ("check", "parser", "dataframe_check", "dataframe_parser"):
        seen = set()
        for an in mro:
            for m in _cls(h, an)["methods"]:
                if m["kind"] != kind:
                    continue
                if m["mname"] in seen:
                    continue
                seen.add(m["mname"])
                kw = dict(m["kwargs"])
                nm = kw.pop("name", None) or m["mname"]
                if kind in ("check", "dataframe_check"):
                    item = {"k": "fn", "fn": m["body"], "name": nm, "kw": kw}
                    if m["body"] == "lt_cls_limit":
                        lim = next((_cls(h, x).get("attrs", {})["_limit"] for x in mro if "_limit" in _cls(h, x).get("attrs", {})), None)
                        if lim is None:
                            raise RefUnspecified("check reads cls._limit but no class defines it")
                        item["limit"] = lim   # the value `cls._limit` has for the class being compiled
                else:
                    item = {"fn": m["body"], "name": nm, "kw": kw}
                if kind == "dataframe_check":
                    df_checks.append(item)
                elif kind == "dataframe_parser":
                    df_parsers.append(item)
                else:
                    if m["regex"]:
                        import re

                        matched = [n for n in names if any(re.compile(p).match(n) for p in m["fields"])]
                    else:
                        matched = list(m["fields"])
                    for n in matched:
                        if n not in names:
                            raise RefInitError(f"{kind} assigned to a non-existing field {n}")
                        (col_checks if kind == "check" else col_parsers).setdefault(n, []).append(item)
    n_index = sum(1 for a, _ in fields.values() if a["style"] == "index")
    cols, indices = [], []
    for name, (a, fi) in fields.items():
        checks = _builtin_checks(fi) + col_checks.get(name, [])
        if a["style"] == "index":
            if backend == "polars":
                raise RefUnspecified("polars index")
            if a["optional"]:
                raise RefInitError("optional index")
            iname = name
            if fi["check_name"] is False or (fi["check_name"] is None and n_index == 1):
                iname = None
            indices.append(S.comp(name=iname, dtype=a["dtype"], nullable=fi["nullable"], unique=fi["unique"], coerce=fi["coerce"],
                                  checks=checks, title=fi["title"], description=fi["description"], default=fi["default"]))
        else:
            if fi["check_name"] is False:
                raise RefInitError("check_name on a column")
            cols.append(S.comp(name=name, dtype=a["dtype"], nullable=fi["nullable"], unique=fi["unique"], coerce=fi["coerce"],
                               regex=fi["regex"], required=not a["optional"], checks=checks,
                               parsers=[] if backend == "polars" else col_parsers.get(name, []),
                               title=fi["title"], description=fi["description"], default=fi["default"], metadata=fi["metadata"]))
    # configuration: options merged root -> leaf, each class contributing what its own Config body defines
    opts, extras, unspecified = {}, {}, set()
    resolved_name = {}
    for an in reversed(mro):
        c = _cls(h, an)
        own = dict(c["config"] or {})
        if "name" not in own:
            if c["config"] is not None and c["config_base"] == "parent" and c["bases"]:
                # `class Config(Parent.Config)` inherits the parent's attributes, its name included (plain Python inheritance)
                own["name"] = resolved_name[c["bases"][0]]
            else:
                own["name"] = an
        resolved_name[an] = own["name"]
        for k, v in own.items():
            if k in CONFIG_KEYS or k in MI_KEYS:
                opts[k] = v
            else:
                extras[k] = v
    for k, v in extras.items():
        df_checks.append({"k": k, "a": list(v) if isinstance(v, tuple) else [v], "kw": {}})
    index = None
    if len(indices) == 1:
        index = dict(indices[0], kind="single")
    elif len(indices) > 1:
        index = {"kind": "multi", "levels": indices, "strict": opts.get("multiindex_strict", False),
                 "ordered": opts.get("multiindex_ordered", True), "unique": opts.get("multiindex_unique"),
                 "coerce": opts.get("multiindex_coerce", False), "name": opts.get("multiindex_name")}
    spec = S.frame(cols=cols, index=index, checks=df_checks, parsers=[] if backend == "polars" else df_parsers,
                   **{k: opts[k] for k in CONFIG_KEYS if k in opts})
    return spec, unspecified


def build_ref_schema(spec, backend):
    with warnings.catch_warnings():
        warnings.simplefilter("ignore")
        return S.build_pandas(spec) if backend == "pandas" else S.build_polars(spec)


def _extra_check_builder(pa, c, backend):
    kw = dict(c.get("kw") or {})
    return pa.Check(plain_fn(c["fn"], backend, c.get("limit")), name=c["name"], **kw)


def _install_spec_hooks(backend):
    import pandera as pa

    S.EXTRA_CHECK_BUILDERS["fn"] = lambda pa_, c: _extra_check_builder(pa, c, backend)
    S.EXTRA_PARSER_BUILDER = lambda pa_, p: pa.Parser(plain_fn(p["fn"], backend), name=p["name"], **(p.get("kw") or {}))


# ---------------------------------------------------------------------------------------------
# projections of live schema objects (what "equal up to check function identity" compares)
def _proj_check(c):
    stats = c.statistics or {}
    return {"name": c.name, "statistics": json.dumps({k: repr(v) for k, v in sorted(stats.items())}),
            "element_wise": getattr(c, "element_wise", None), "ignore_na": getattr(c, "ignore_na", None),
            "raise_warning": getattr(c, "raise_warning", None), "n_failure_cases": getattr(c, "n_failure_cases", None),
            "groupby": repr(getattr(c, "groupby", None)), "groups": repr(getattr(c, "groups", None)), "error": c.error,
            "builtin": c.name in type(c).CHECK_FUNCTION_REGISTRY}


def _proj_parser(p):
    return {"name": p.name, "element_wise": getattr(p, "element_wise", None), "ignore_na": getattr(p, "ignore_na", None)}


def _proj_comp(c, is_col):
    d = {"name": c.name, "dtype": str(c.dtype), "nullable": c.nullable, "unique": c.unique, "coerce": c.coerce,
         "title": c.title, "description": c.description, "default": repr(getattr(c, "default", None)),
         "checks": [_proj_check(x) for x in c.checks], "parsers": [_proj_parser(x) for x in getattr(c, "parsers", [])],
         "report_duplicates": getattr(c, "report_duplicates", None), "drop_invalid_rows": getattr(c, "drop_invalid_rows", None)}
    if is_col:
        d.update(required=c.required, regex=c.regex, metadata=repr(c.metadata))
    return d


def project(schema, unspecified=()):
    idx = schema.index if hasattr(schema, "index") else None
    if idx is None:
        pidx = None
    elif hasattr(idx, "indexes"):
        pidx = {"multi": [_proj_comp(i, False) for i in idx.indexes], "strict": idx.strict, "ordered": idx.ordered,
                "coerce": idx.coerce, "unique": repr(idx.unique), "name": idx.name}
    else:
        pidx = _proj_comp(idx, False)
    d = {"columns": [[str(k), _proj_comp(v, True)] for k, v in schema.columns.items()], "index": pidx,
         "checks": [_proj_check(x) for x in schema.checks], "parsers": [_proj_parser(x) for x in getattr(schema, "parsers", [])],
         "dtype": str(schema.dtype), "coerce": schema.coerce, "strict": schema.strict, "name": schema.name, "ordered": schema.ordered,
         "unique": repr(schema.unique), "title": schema.title, "description": schema.description,
         "unique_column_names": schema.unique_column_names, "add_missing_columns": schema.add_missing_columns,
         "drop_invalid_rows": schema.drop_invalid_rows, "report_duplicates": getattr(schema, "report_duplicates", None)}
    for k in unspecified:
        d.pop(k, None)
    return d


# ---------------------------------------------------------------------------------------------
# probe tables
VALUES = {"int64": [1, 2, 3], "str": ["x", "yy", "z"], "float64": [1.5, 2.5, 3.5]}
TDT = {"int64": "int64", "str": "object", "float64": "float64"}


def base_table(spec):
    cols = []
    for c in spec["cols"]:
        dt = c["dtype"] or "int64"
        names = ["r_1", "r_2"] if c["regex"] else [c["name"]]
        for n in names:
            cols.append({"name": n, "dtype": TDT[dt], "values": list(VALUES[dt])})
    ix = spec.get("index")
    tix = None
    if ix is not None:
        if ix.get("kind") == "single":
            tix = {"kind": "single", "values": [10, 20, 30] if ix["dtype"] == "int64" else ["p", "q", "r"], "dtype": TDT[ix["dtype"]],
                   "name": ix["name"]}
        else:
            tix = {"kind": "multi", "levels": [{"values": [10, 20, 30] if l["dtype"] == "int64" else ["p", "q", "r"],
                                                "dtype": TDT[l["dtype"]], "name": l["name"]} for l in ix["levels"]]}
    return {"cols": cols, "index": tix}


def probe_tables(spec, backend, rich):
    t0 = base_table(spec)
    out = [([], t0)]
    if not t0["cols"]:
        return out
    for e in E.data_edits(t0, rich=rich):
        try:
            t = E.apply_data_edit(t0, e)
        except Exception:  # noqa
            t = None
        if t is None:
            continue
        out.append(([e], t))
    if backend == "polars":
        out = [(e, t) for e, t in out if T.polars_representable(t)]
    return out


# ---------------------------------------------------------------------------------------------
# running a hierarchy
def _observe(backend, schema, table, lazy):
    from mc import observe as O

    with warnings.catch_warnings(record=True) as w:
        warnings.simplefilter("always")
        if backend == "pandas":
            obs = O.validate_pandas({"kind": "frame"}, table, lazy=lazy, schema=schema)
        else:
            obs = O.validate_polars({"kind": "frame"}, table, lazy=lazy, schema=schema)
    out = {"outcome": obs["outcome"]}
    if obs["outcome"] == "ok":
        out["result"] = obs["result"]
    elif obs["outcome"] == "SchemaErrors":
        rep = obs["report"]
        out["rows"] = sorted(json.dumps(r, sort_keys=True, default=str) for r in rep["rows"])
        out["error_counts"] = rep["error_counts"]
    elif obs["outcome"] == "SchemaError":
        e = dict(obs["error"])
        e.pop("ctx", None)
        out["error"] = json.dumps(e, sort_keys=True, default=str)
    else:
        out["exc"] = obs.get("exc")
    out["n_warnings"] = len([x for x in w if "pandera" in str(getattr(x, "filename", "")) or issubclass(x.category, UserWarning)])
    return out


def events_of(h, with_validate):
    evs = []
    for c in h["classes"]:
        evs.append(("def", c["name"]))
        evs.append(("schema", c["name"]))
        if with_validate:
            evs.append(("validate", c["name"]))
    return evs


def enabled(h, hist, with_validate):
    done = set(hist)
    out = []
    for c in h["classes"]:
        n = c["name"]
        if ("def", n) not in done:
            if all(("def", b) in done for b in c["bases"]):
                out.append(("def", n))
        else:
            if ("schema", n) not in done:
                out.append(("schema", n))
            if with_validate and ("validate", n) not in done:
                out.append(("validate", n))
    return out


class Runner:
    """replays one history on freshly exec'd classes"""

    def __init__(self, h, refs):
        self.h, self.refs = h, refs
        self.backend = h["backend"]
        import sys
        import types

        Runner._n = getattr(Runner, "_n", 0) + 1
        self.modname = f"c16_generated_{Runner._n}"
        mod = types.ModuleType(self.modname)
        sys.modules[self.modname] = mod
        self.ns = mod.__dict__
        exec(PREAMBLE[self.backend], self.ns)  # noqa
        self.held = {}       # class name -> (schema object, fingerprint digest at hand-out)
        self.viol = []
        self.classes = {}

    def add(self, clause, key, detail):
        self.viol.append((clause, key, detail))

    def step(self, ev, hist):
        kind, n = ev
        ref = self.refs[n]
        if kind == "def":
            try:
                with warnings.catch_warnings():
                    warnings.simplefilter("ignore")
                    exec(class_source(self.h, _cls(self.h, n)), self.ns)  # noqa
                self.classes[n] = self.ns[n]
            except Exception as exc:  # noqa
                self.classes[n] = None
                if ref["kind"] != "unspecified":
                    self.add("init_error_agrees", f"{self.backend}:define:{type(exc).__name__}", f"class {n} could not be defined: {exc!r}"[:300])
            return
        cls = self.classes.get(n)
        if cls is None:
            return
        import pandera as pa

        if kind == "schema" or kind == "validate":
            try:
                with warnings.catch_warnings():
                    warnings.simplefilter("ignore")
                    if kind == "validate" and ref["kind"] == "ok":
                        try:
                            cls.validate(ref["frame0"](), lazy=True)
                        except (pa.errors.SchemaError, pa.errors.SchemaErrors):
                            pass
                    sch = cls.to_schema()
                err = None
            except pa.errors.SchemaInitError as exc:
                sch, err = None, exc
            except Exception as exc:  # noqa
                sch, err = None, exc
            if ref["kind"] == "unspecified":
                return
            if ref["kind"] == "init_error":
                if err is None:
                    self.add("init_error_agrees", f"{self.backend}:{ref['why']}:accepted", f"{n}.to_schema() returned a schema; docs: {ref['why']}")
                elif not isinstance(err, pa.errors.SchemaInitError):
                    self.add("init_error_agrees", f"{self.backend}:{ref['why']}:{type(err).__name__}", repr(err)[:300])
                return
            if err is not None:
                self.add("init_error_agrees", f"{self.backend}:valid_model:{type(err).__name__}", f"{n}.to_schema() after {hist}: {err!r}"[:400])
                return
            p = project(sch, ref["unspecified"])
            if p != ref["proj"]:
                d = FP.diff(ref["proj"], p)
                where = "|".join(sorted({_diffkey(x) for x in d[:4]}))
                self.add("schema_equals_reference", f"{self.backend}:{where}", f"{n}.to_schema() after {list(hist)}: {d[:4]}")
            if n in self.held:
                if self.held[n][0] is not sch:
                    p0 = project(self.held[n][0], ref["unspecified"])
                    if p0 != p:
                        self.add("to_schema_stable", f"{self.backend}:repeated_call_differs", f"{n}: {FP.diff(p0, p)[:3]}")
            else:
                self.held[n] = (sch, FP.digest(sch))
        # children never alter parents: every schema handed out earlier still fingerprints the same
        for m, (s0, dg) in self.held.items():
            if m != n and FP.digest(s0) != dg:
                self.add("to_schema_stable", f"{self.backend}:earlier_schema_mutated", f"schema of {m} changed after {ev} (history {list(hist)})")
                self.held[m] = (s0, FP.digest(s0))

    def state_key(self, hist):
        defined = tuple(sorted(n for k, n in hist if k == "def"))
        compiled = tuple(sorted(n for k, n in hist if k in ("schema", "validate")))
        cl = {}
        for n, cls in self.classes.items():
            if cls is None:
                continue
            d = {}
            for k, v in vars(cls).items():
                if k in ("__schema__", "__module__", "__doc__", "__dict__", "__weakref__", "__annotations__", "__parameters__",
                         "__orig_bases__", "__fields__", "__checks__", "__parsers__", "__root_checks__", "__root_parsers__",
                         "__config__", "Config", "__extras__"):
                    continue
                info = None
                for key in ("__check_config__", "__dataframe_check_config__", "__parser_config__", "__dataframe_parser_config__"):
                    info = info or getattr(v, key, None)
                if info is not None:
                    d[k] = json.dumps(FP.fingerprint({kk: vv for kk, vv in vars(info).items() if kk not in ("check_fn", "parser_fn")}),
                                      sort_keys=True, default=str)
                elif type(v).__name__ == "FieldInfo":
                    d[k] = FP.digest(v)
            cl[n] = d
        return json.dumps([defined, compiled, cl], sort_keys=True)

    def cleanup(self):
        from pandera.api.dataframe.model import MODEL_CACHE

        import sys

        for cls in self.classes.values():
            if cls is not None:
                MODEL_CACHE.pop(cls, None)
        sys.modules.pop(self.modname, None)


def _diffkey(x):
    path = x.split(":")[0]
    import re

    path = re.sub(r"\[\d+\]", "[]", path)
    return path.replace("$.", "")


def make_refs(h):
    refs = {}
    backend = h["backend"]
    _install_spec_hooks(backend)
    for c in h["classes"]:
        n = c["name"]
        try:
            spec, unspec = compile_ref(h, n)
        except RefInitError as exc:
            refs[n] = {"kind": "init_error", "why": str(exc).split(" ")[0] + "_" + str(exc).split(" ")[-1] if False else str(exc).replace(" ", "_")[:40]}
            continue
        except RefUnspecified:
            refs[n] = {"kind": "unspecified"}
            continue
        try:
            sch = build_ref_schema(spec, backend)
        except Exception as exc:  # noqa  (the object API itself rejects this combination)
            refs[n] = {"kind": "unspecified", "why": repr(exc)[:200]}
            continue
        t0 = base_table(spec)

        def frame0(t0=t0, backend=backend):
            return T.to_pandas(t0) if backend == "pandas" else T.to_polars(t0)

        refs[n] = {"kind": "ok", "spec": spec, "speckey": json.dumps(spec, sort_keys=True, default=str), "schema": sch, "unspecified": sorted(unspec), "proj": project(sch, unspec), "frame0": frame0}
    return refs


_REF_OBS = {}


def _ref_observe(backend, ref, t, lazy):
    key = (backend, ref["speckey"], json.dumps(t, sort_keys=True, default=str), lazy)
    if key not in _REF_OBS:
        if len(_REF_OBS) > 20000:
            _REF_OBS.clear()
        _REF_OBS[key] = _observe(backend, ref["schema"], t, lazy)
    return _REF_OBS[key]


def _reduced(tables):
    """base table + the first table of each data-edit kind"""
    out, kinds = [], set()
    for eds, t in tables:
        k = "+".join(E_kind(e) for e in eds)
        if k in kinds:
            continue
        kinds.add(k)
        out.append((eds, t))
    return out


def run_hierarchy(h, with_validate=False, rich=False, probe_classes=None, reduced=False):
    """-> (violations {(clause,key): detail}, states, transitions, stats)"""
    viol = {}
    refs = make_refs(h)
    backend = h["backend"]

    def merge(r):
        for c, k, d in r.viol:
            viol.setdefault((c, k), d)

    # explicit-state search over histories ---------------------------------------------------------
    seen = {}
    stack = [()]
    transitions = 0
    maximal = []
    while stack:
        hist = stack.pop()
        evs = enabled(h, hist, with_validate)
        if not evs:
            maximal.append(hist)
        for ev in evs:
            h2 = hist + (ev,)
            r = Runner(h, refs)
            try:
                for i, e in enumerate(h2):
                    r.step(e, h2[:i + 1])
                key = r.state_key(h2)
            finally:
                r.cleanup()
            merge(r)
            transitions += 1
            if key not in seen:
                seen[key] = h2
                stack.append(h2)
    # probes: model vs reference on every probe table, after the parent-first and the child-first history -------
    stats = {"accept": 0, "reject": 0, "probes": 0}
    names = [c["name"] for c in h["classes"]]
    probe_classes = probe_classes or names
    orders = [[("def", n) for n in names] + [("schema", n) for n in names],
              [("def", n) for n in names] + [("schema", n) for n in reversed(names)]]
    for oi, order in enumerate(orders):
        r = Runner(h, refs)
        try:
            for i, e in enumerate(order):
                r.step(e, tuple(order[:i + 1]))
            merge(r)
            for n in probe_classes:
                ref = refs[n]
                cls = r.classes.get(n)
                if ref["kind"] != "ok" or cls is None or n not in r.held:
                    continue
                tables = probe_tables(ref["spec"], backend, rich)
                if reduced:
                    tables = _reduced(tables)
                if oi == 1:
                    tables = tables[:1] + tables[1::6]
                for eds, t in tables:
                    for lazy in ((True, False) if (oi == 0 and n == names[-1]) else (True,)):
                        om = _observe(backend, cls, t, lazy)
                        orf = _ref_observe(backend, ref, t, lazy)
                        stats["probes"] += 1
                        stats["accept" if om["outcome"] == "ok" else "reject"] += 1
                        if om != orf:
                            part = next((k for k in ("outcome", "result", "rows", "error_counts", "error", "exc", "n_warnings") if om.get(k) != orf.get(k)), "?")
                            ek = "+".join(E_kind(e) for e in eds) or "conforming"
                            viol.setdefault(("verdict_equals_reference", f"{backend}:{part}:{om['outcome']}!={orf['outcome']}" if part == "outcome" else f"{backend}:{part}:{ek}"),
                                            f"class {n}, table edits {eds}, lazy={lazy}: model {str(om)[:300]} reference {str(orf)[:300]}")
        finally:
            r.cleanup()
    return viol, len(seen), transitions, stats


def E_kind(e):
    from mc.props.espace import edit_kind as ek

    try:
        return ek(e)
    except Exception:  # noqa
        return str(e[0])


# ---------------------------------------------------------------------------------------------
# planning: deviation-bounded sets of hierarchies
def hierarchies(shape, backend, k, related_pairs=True, core_pairs=False, cross_only=False):
    h0 = base_hierarchy(shape, backend)
    eds = hierarchy_edits(h0)
    out = [([], h0)]
    seen = {json.dumps(h0, sort_keys=True)}
    singles = []
    for e in eds:
        h1 = apply_edit(h0, e)
        if h1 is None:
            continue
        key = json.dumps(h1, sort_keys=True)
        if key in seen:
            continue
        seen.add(key)
        singles.append((e, h1))
        out.append(([e], h1))
    if k >= 2:
        if core_pairs:
            singles = [(e, apply_edit(h0, e)) for e in hierarchy_edits(h0, core=True)]
            singles = [(e, h1) for e, h1 in singles if h1 is not None]
        for (e1, h1), (e2, _) in itertools.combinations(singles, 2):
            if related_pairs and edit_target(e1) != edit_target(e2):
                continue
            if cross_only and (e1[0] == e2[0] or edit_target(e1).startswith(("field:b", "field:c", "field:d", "field:r", "index"))):
                continue
            if e1[0] == e2[0] and e1[1] == e2[1] and e1[1] in ("config",) and set(e1[2]) & set(e2[2]):
                continue
            h2 = apply_edit(h1, e2)
            if h2 is None:
                continue
            key = json.dumps(h2, sort_keys=True)
            if key in seen:
                continue
            seen.add(key)
            out.append(([e1, e2], h2))
    return out


def plan(tier, seed):
    cases = []
    quick = tier == "quick"
    # (shape, backend, k, related pairs only, core alphabet for pairs, cross-level pairs only)
    combos = [("chain", "pandas", 2, True, True, True), ("chain", "polars", 2, True, True, True)] if quick else \
        [("chain", "pandas", 2, False, False, False), ("chain", "polars", 2, True, False, False), ("diamond", "pandas", 2, True, True, False),
         ("diamond", "polars", 1, True, True, False)]
    for shape, backend, k, related, core, cross in combos:
        n = 64 if quick else (512 if not related else 128)
        for sh in range(n):
            cases.append({"shape": shape, "backend": backend, "k": k, "related": related, "core": core, "cross": cross, "shard": [sh, n],
                          "with_validate": not quick, "reduced": quick})
    return {"cases": cases, "exhaustive": True,
            "bounds": {"hierarchy": "chain A<-B<-C (thorough also diamond A<-B,C<-D)",
                       "edits": "all single class-body edits (rich alphabet) + pairs: quick = cross-class pairs on the same field a / method / Config over the core alphabet; "
                                "thorough = all pairs on the pandas chain, same-target pairs elsewhere",
                       "histories": "all linear extensions of {define, to_schema" + ("" if quick else ", validate") + "} per class",
                       "probe tables": "conforming table + " + ("one table per data-edit kind" if quick else "every single data edit") + " (3 rows), lazy (leaf class also eager), "
                                       "after the parent-first and the child-first compile order"},
            "rule": "state = (classes defined, classes compiled, class-level FieldInfo/CheckInfo/ParserInfo fingerprints), deduplicated; transitions = events "
                    "replayed on freshly exec'd classes + probe validations; non-trivial = hierarchy with >=1 edit whose probes contain both accepted and rejected "
                    "tables or whose reference declares an init error"}


def run_case(case):
    if "concrete" in case:
        items = [(case["concrete"]["edits"], case["concrete"]["hierarchy"])]
        wv = case["concrete"].get("with_validate", True)
    else:
        allh = hierarchies(case["shape"], case["backend"], case["k"], case.get("related", True), case.get("core", False), case.get("cross", False))
        i, n = case["shard"]
        items = allh[i::n]
        wv = case.get("with_validate", False)
    viol_out, states, transitions, nontriv = [], 0, 0, 0
    seen = set()
    outcomes = {}
    for eds, h in items:
        levels = {e[0] for e in eds}
        names = [c["name"] for c in h["classes"]]
        pc = [n for n in names if not levels or levels & set(mro_names(h, n))]
        v, st, tr, stats = run_hierarchy(h, with_validate=wv, probe_classes=pc, reduced=case.get("reduced", True) or len(eds) >= 2)
        states += st
        transitions += tr + stats["probes"]
        nt = bool(eds) and ((stats["accept"] > 0 and stats["reject"] > 0) or stats["probes"] == 0)
        nontriv += 1 if nt else 0
        lab = "init_error_or_unspecified" if stats["probes"] == 0 else ("mixed" if stats["accept"] and stats["reject"] else "one_sided")
        outcomes[lab] = outcomes.get(lab, 0) + 1
        for (c, k), d in v.items():
            if (c, k) in seen:
                continue
            seen.add((c, k))
            viol_out.append({"clause": c, "key": k, "detail": f"edits {[edit_kind(e) for e in eds]}: {d}"[:900],
                             "case": {"concrete": {"edits": eds, "hierarchy": h, "with_validate": wv, "source": full_source(h)}}})
    return {"viol": viol_out, "states": states, "transitions": transitions, "execs": transitions, "nontrivial": nontriv > 0,
            "nontrivial_n": nontriv, "outcome": max(outcomes.items(), key=lambda kv: kv[1])[0] if outcomes else "empty",
            "counters": {"hierarchies": len(items), **{"h:" + k: v for k, v in outcomes.items()}}}
