"""C18 — configuration is scoped, honoured, and validation depth only removes checks.

Three sub-spaces, all exhaustive within their bounds:

 nest   explicit-state BFS over the stack machine {enter(opts), exit, exit-by-exception, probe
        validations} driven on the *real* pandera.config.config_context.  A state is the model stack
        (list of expected configs); every transition replays the history on the real code and
        compares get_config_context(None)/get_config_global() with the model.
 env    every combination of the four documented environment variables, each in a fresh
        interpreter; oracle = docs/source/configuration.md.
 depth  (module c18_depth, merged in plan) SAD <=> SO and DO over the shared schema x data space.
"""
from __future__ import annotations

import itertools
import json
import os
import subprocess
import sys

PROPERTY = "C18"
LEVEL = "model_checking"
ASSUMPTIONS = [
    "environment variable spellings other than the documented True/False and the three depth names are unspecified and not judged",
]

# ---------------------------------------------------------------------------------------------
# nest: alphabet
DEPTHS = ["SCHEMA_ONLY", "DATA_ONLY", "SCHEMA_AND_DATA"]
ENTERS = (
    [{"validation_enabled": v} for v in (True, False)]
    + [{"validation_depth": d} for d in DEPTHS]
    + [{"cache_dataframe": v} for v in (True, False)]
    + [{"keep_cached_dataframe": v} for v in (True, False)]
    + [{"validation_depth": "DATA_ONLY", "cache_dataframe": True},
       {"validation_enabled": False, "validation_depth": "SCHEMA_ONLY", "keep_cached_dataframe": True},
       {}]
)
PROBES = ["pd_ok", "pd_bad_data", "pd_bad_schema", "pl_df_bad_data", "pl_lf_bad_data", "pl_df_bad_schema",
          "pd_lazy_bad", "pl_col_bad_data"]
FIELDS = ["validation_enabled", "validation_depth", "cache_dataframe", "keep_cached_dataframe"]


def _events(depth_now, max_nest):
    evs = []
    if depth_now < max_nest:
        evs += [("enter", i) for i in range(len(ENTERS))]
    if depth_now > 0:
        evs += [("exit", None), ("exit_exc", None)]
    evs += [("probe", p) for p in PROBES]
    return evs


_W = {}


def init_worker():
    import pandas as pd
    import polars as pl
    import pandera as pa
    import pandera.polars as pp
    from pandera import config as cfg

    _W.update(pd=pd, pl=pl, pa=pa, pp=pp, cfg=cfg)
    _W["pd_schema"] = pa.DataFrameSchema({"a": pa.Column(int, pa.Check.ge(0))})
    _W["pl_schema"] = pp.DataFrameSchema({"a": pp.Column(int, pa.Check.ge(0))})
    _W["pl_col"] = pp.Column(int, pa.Check.ge(0), name="a")
    _W["frames"] = {
        "pd_ok": pd.DataFrame({"a": [1, 2]}),
        "pd_bad_data": pd.DataFrame({"a": [1, -2]}),
        "pd_bad_schema": pd.DataFrame({"a": [1.5, 2.5]}),
        "pl_bad_data": pl.DataFrame({"a": [1, -2]}),
        "pl_bad_schema": pl.DataFrame({"a": [1.5, 2.5]}),
    }
    # warm lazily registered backends so that registration is not part of any transition
    _W["pd_schema"].validate(_W["frames"]["pd_ok"])
    _W["pl_schema"].validate(pl.DataFrame({"a": [1]}))


def _cfg_tuple(c):
    d = c.validation_depth
    return (c.validation_enabled, None if d is None else d.value, c.cache_dataframe, c.keep_cached_dataframe)


def _expected_probe(probe, eff, global_depth):
    """Documented verdict of a probe under effective config eff=(enabled, depth|None, ..)."""
    enabled, depth = eff[0], eff[1]
    if not enabled:
        return "same_object"
    bad = {"pd_ok": None, "pd_bad_data": "data", "pd_bad_schema": "schema", "pd_lazy_bad": "data",
           "pl_df_bad_data": "data", "pl_lf_bad_data": "data", "pl_df_bad_schema": "schema",
           "pl_col_bad_data": "data"}[probe]
    if depth is None:
        depth = global_depth
    if depth is None:
        # documented defaults: LazyFrame -> SCHEMA_ONLY, everything else full depth.
        depth = "SCHEMA_ONLY" if probe == "pl_lf_bad_data" else "SCHEMA_AND_DATA"
        if probe == "pl_col_bad_data":
            return "unspecified"  # a stand-alone polars Column has no documented default depth
    if bad is None:
        return "accept"
    if depth == "SCHEMA_AND_DATA":
        return "reject"
    if depth == "SCHEMA_ONLY":
        return "reject" if bad == "schema" else "accept"
    return "reject" if bad == "data" else "accept"


def _do_probe(probe):
    W = _W
    fr = W["frames"]
    pa = W["pa"]
    try:
        if probe == "pd_ok":
            x = fr["pd_ok"]; r = W["pd_schema"].validate(x)
        elif probe == "pd_bad_data":
            x = fr["pd_bad_data"]; r = W["pd_schema"].validate(x)
        elif probe == "pd_lazy_bad":
            x = fr["pd_bad_data"]; r = W["pd_schema"].validate(x, lazy=True)
        elif probe == "pd_bad_schema":
            x = fr["pd_bad_schema"]; r = W["pd_schema"].validate(x)
        elif probe == "pl_df_bad_data":
            x = fr["pl_bad_data"]; r = W["pl_schema"].validate(x)
        elif probe == "pl_lf_bad_data":
            x = fr["pl_bad_data"].lazy(); r = W["pl_schema"].validate(x)
            if not (r is x):
                r.collect()
        elif probe == "pl_df_bad_schema":
            x = fr["pl_bad_schema"]; r = W["pl_schema"].validate(x)
        elif probe == "pl_col_bad_data":
            x = fr["pl_bad_data"]; r = W["pl_col"].validate(x)
        else:
            raise AssertionError(probe)
    except (pa.errors.SchemaError, pa.errors.SchemaErrors):
        return "reject"
    return "same_object" if r is x else "accept"


def _verdict_ok(exp, got):
    """exp 'same_object' (validation disabled) demands identity; exp 'accept' allows either
    a new object or the argument itself (a LazyFrame is legitimately handed back)."""
    if exp == "accept":
        return got in ("accept", "same_object")
    return exp == got


def _replay(history):
    """Run history on the real code; return (viol list, model stack, observed cfg) after the last event."""
    cfg = _W["cfg"]
    glob0 = _cfg_tuple(cfg.get_config_global())
    base = _cfg_tuple(cfg.get_config_context(validation_depth_default=None))
    stack = []  # list of (cm, expected-config-before-enter)
    model = base
    viol = []
    try:
        for step, (kind, arg) in enumerate(history):
            if kind == "enter":
                opts = dict(ENTERS[arg])
                kw = dict(opts)
                if "validation_depth" in kw:
                    kw["validation_depth"] = cfg.ValidationDepth(kw["validation_depth"])
                cm = cfg.config_context(**kw)
                cm.__enter__()
                stack.append((cm, model))
                m = list(model)
                for k, v in opts.items():
                    m[FIELDS.index(k)] = v
                model = tuple(m)
            elif kind in ("exit", "exit_exc"):
                cm, before = stack.pop()
                if kind == "exit":
                    cm.__exit__(None, None, None)
                else:
                    exc = KeyError("boom")
                    suppressed = cm.__exit__(KeyError, exc, None)
                    if suppressed:
                        viol.append({"clause": "nest.exception_propagates", "key": "suppressed",
                                     "detail": f"config_context swallowed an exception at step {step}"})
                model = before
            elif kind == "probe":
                exp = _expected_probe(arg, model, glob0[1])
                got = _do_probe(arg)
                if exp != "unspecified" and not _verdict_ok(exp, got):
                    viol.append({"clause": "nest.probe_verdict", "key": f"{arg}:{exp}->{got}",
                                 "detail": f"history={history} effective={model} expected {exp} got {got}"})
            obs = _cfg_tuple(cfg.get_config_context(validation_depth_default=None))
            if obs != model:
                viol.append({"clause": "nest.config_equals_model", "key": f"after_{kind}",
                             "detail": f"history={history} step={step} expected={model} observed={obs}"})
                break
            if _cfg_tuple(cfg.get_config_global()) != glob0:
                viol.append({"clause": "nest.global_unchanged", "key": f"after_{kind}",
                             "detail": f"history={history} step={step}"})
                break
            full = cfg.get_config_context()
            exp_full = model[1] or "SCHEMA_AND_DATA"
            if full.validation_depth.value != exp_full:
                viol.append({"clause": "nest.default_depth_view", "key": f"after_{kind}",
                             "detail": f"get_config_context() depth {full.validation_depth} expected {exp_full}"})
    finally:
        # unwind whatever is still open so that the next history starts from the base state
        while stack:
            cm, _b = stack.pop()
            try:
                cm.__exit__(None, None, None)
            except Exception:  # noqa
                pass
        cfg.reset_config_context()
    end = _cfg_tuple(cfg.get_config_context(validation_depth_default=None))
    if end != base and not viol:
        viol.append({"clause": "nest.unwound_to_base", "key": "end", "detail": f"history={history} base={base} end={end}"})
    return viol, model


def _bfs(root, max_nest, max_len):
    """BFS below `root` (a first event).  State = (model stack of configs) -- probes are self loops."""
    from collections import deque

    def stack_of(hist):
        st = []
        for kind, arg in hist:
            if kind == "enter":
                st.append(arg)
            elif kind in ("exit", "exit_exc"):
                st.pop()
        return tuple(st)

    seen = {stack_of([root])}
    viol, transitions = [], 0
    v, m0 = _replay([root])
    viol += v
    transitions += 1
    frontier = deque([([root], m0)])
    probed = set()
    while frontier:
        hist, model = frontier.popleft()
        st = stack_of(hist)
        # a probe's verdict is a function of the observed configuration, which is compared with
        # the model after *every* transition; below nesting 2 every state is probed, deeper
        # states only when their effective configuration has not been probed yet.
        do_probe = len(st) <= 2 or model not in probed
        probed.add(model)
        for ev in _events(len(st), max_nest):
            if ev[0] == "probe" and not do_probe:
                continue
            nxt = hist + [ev]
            v, m = _replay(nxt)
            transitions += 1
            viol += v
            if ev[0] == "probe" or len(nxt) >= max_len:
                continue
            k = stack_of(nxt)
            # exits reach a stack already reached by a shorter history: still *executed* above
            # (differential: state reached from elsewhere), but not expanded twice.
            if k not in seen:
                seen.add(k)
                frontier.append((nxt, m))
    return viol, len(seen), transitions


# ---------------------------------------------------------------------------------------------
# env
ENV_VALUES = {
    "PANDERA_VALIDATION_ENABLED": [None, "True", "False"],
    "PANDERA_VALIDATION_DEPTH": [None] + DEPTHS,
    "PANDERA_CACHE_DATAFRAME": [None, "True", "False"],
    "PANDERA_KEEP_CACHED_DATAFRAME": [None, "True", "False"],
}

_ENV_PROBE = r"""
import json, sys, warnings
warnings.simplefilter("ignore")
import pandas as pd, polars as pl
import pandera as pa, pandera.polars as pp
from pandera import config as cfg
def t(c):
    d = c.validation_depth
    return [c.validation_enabled, None if d is None else d.value, c.cache_dataframe, c.keep_cached_dataframe]
out = {"global": t(cfg.get_config_global()), "context": t(cfg.get_config_context(validation_depth_default=None))}
def verdict(fn, x):
    try:
        r = fn(x)
    except (pa.errors.SchemaError, pa.errors.SchemaErrors):
        return "reject"
    except Exception as e:
        return "leak:" + type(e).__name__
    return "same_object" if r is x else "accept"
pds = pa.DataFrameSchema({"a": pa.Column(int, pa.Check.ge(0))})
ser = pa.SeriesSchema(int, pa.Check.ge(0))
pls = pp.DataFrameSchema({"a": pp.Column(int, pa.Check.ge(0))})
class M(pa.DataFrameModel):
    a: int = pa.Field(ge=0)
class PM(pp.DataFrameModel):
    a: int = pa.Field(ge=0)
bad_d = pd.DataFrame({"a": [1, -2]}); bad_s = pd.DataFrame({"a": [1.5, 2.5]})
def all_probes():
  return {
  "pd_bad_data": verdict(pds.validate, bad_d),
  "pd_bad_schema": verdict(pds.validate, bad_s),
  "pd_both_bad_lazy": verdict(lambda x: pds.validate(x, lazy=True), pd.DataFrame({"a": [1.5, -2.5]})),
  "series_bad_data": verdict(ser.validate, pd.Series([1, -2])),
  "series_bad_schema": verdict(ser.validate, pd.Series([1.5, 2.5])),
  "model_bad_data": verdict(M.validate, bad_d),
  "pl_df_bad_data": verdict(pls.validate, pl.DataFrame({"a": [1, -2]})),
  "pl_df_bad_schema": verdict(pls.validate, pl.DataFrame({"a": [1.5, 2.5]})),
  "pl_lf_bad_data": verdict(lambda x: (lambda r: r if r is x else (r.collect(), r)[1])(pls.validate(x)), pl.DataFrame({"a": [1, -2]}).lazy()),
  "pl_lf_bad_schema": verdict(lambda x: (lambda r: r if r is x else (r.collect(), r)[1])(pls.validate(x)), pl.DataFrame({"a": [1.5, 2.5]}).lazy()),
  "pl_model_bad_data": verdict(PM.validate, pl.DataFrame({"a": [1, -2]})),
  }
out["probes"] = all_probes()
# the environment puts the process in a non-initial configuration: a config_context entered on top of it must still win
out["ctx_probes"] = {}
for y in ("SCHEMA_ONLY", "DATA_ONLY", "SCHEMA_AND_DATA"):
    with cfg.config_context(validation_depth=cfg.ValidationDepth[y]):
        out["ctx_probes"][y] = all_probes()
    out["ctx_probes"][y]["@restored"] = t(cfg.get_config_context(validation_depth_default=None)) == out["context"]
print("@@" + json.dumps(out))
"""

_PROBE_KIND = {
    "pd_bad_data": ("data", "frame"), "pd_bad_schema": ("schema", "frame"), "pd_both_bad_lazy": ("both", "frame"),
    "series_bad_data": ("data", "frame"), "series_bad_schema": ("schema", "frame"),
    "model_bad_data": ("data", "frame"),
    "pl_df_bad_data": ("data", "frame"), "pl_df_bad_schema": ("schema", "frame"),
    "pl_lf_bad_data": ("data", "lazy"), "pl_lf_bad_schema": ("schema", "lazy"),
    "pl_model_bad_data": ("data", "frame"),
}


def _run_env(setting):
    env = {k: v for k, v in os.environ.items() if not k.startswith("PANDERA_")}
    env["PYTHONHASHSEED"] = "0"
    for k, v in setting.items():
        if v is not None:
            env[k] = v
    p = subprocess.run([sys.executable, "-c", _ENV_PROBE], env=env, capture_output=True, text=True, timeout=300)
    out = None
    for line in p.stdout.splitlines():
        if line.startswith("@@"):
            out = json.loads(line[2:])
    viol = []
    if out is None:
        return [{"clause": "env.interpreter_starts", "key": "import_failed",
                 "detail": f"setting={setting}\n{p.stderr[-1500:]}"}], "crash"
    exp = [
        setting["PANDERA_VALIDATION_ENABLED"] != "False",
        setting["PANDERA_VALIDATION_DEPTH"],
        setting["PANDERA_CACHE_DATAFRAME"] == "True",
        setting["PANDERA_KEEP_CACHED_DATAFRAME"] == "True",
    ]
    names = ["validation_enabled", "validation_depth", "cache_dataframe", "keep_cached_dataframe"]
    for which in ("global", "context"):
        for i, nm in enumerate(names):
            if out[which][i] != exp[i]:
                viol.append({"clause": "env.config_honours_variable", "key": f"{which}.{nm}",
                             "detail": f"setting={setting} expected {nm}={exp[i]!r} observed {out[which][i]!r}"})
    enabled, depth = exp[0], exp[1]
    for name, got in out["probes"].items():
        bad, kind = _PROBE_KIND[name]
        if not enabled:
            want = "same_object"
        else:
            d = depth or ("SCHEMA_ONLY" if kind == "lazy" else "SCHEMA_AND_DATA")
            if d == "SCHEMA_AND_DATA":
                want = "reject"
            elif d == "SCHEMA_ONLY":
                want = "reject" if bad in ("schema", "both") else "accept"
            else:
                want = "reject" if bad in ("data", "both") else "accept"
        if not _verdict_ok(want, got):
            viol.append({"clause": "env.probe_verdict", "key": f"{name}:{want}->{got}",
                         "detail": f"setting={setting} probe={name} expected {want} observed {got}"})
    for y, probes in (out.get("ctx_probes") or {}).items():
        if probes.pop("@restored", True) is not True:
            viol.append({"clause": "env.context_restored", "key": f"after_context:{y}", "detail": f"setting={setting}"})
        for name, got in probes.items():
            bad, kind = _PROBE_KIND[name]
            if not enabled:
                want = "same_object"
            elif y == "SCHEMA_AND_DATA":
                want = "reject"
            elif y == "SCHEMA_ONLY":
                want = "reject" if bad in ("schema", "both") else "accept"
            else:
                want = "reject" if bad in ("data", "both") else "accept"
            if not _verdict_ok(want, got):
                viol.append({"clause": "env.context_overrides_environment", "key": f"{name}:ctx={y}:{want}->{got}",
                             "detail": f"setting={setting} config_context(validation_depth={y}) probe={name} expected {want} observed {got}"})
    return viol, "/".join(str(x) for x in out["global"])


# ---------------------------------------------------------------------------------------------
def plan(tier, seed):
    max_nest, max_len = (3, 5) if tier == "quick" else (4, 7)
    cases = [{"part": "nest", "root": ["enter", i], "max_nest": max_nest, "max_len": max_len}
             for i in range(len(ENTERS))]
    cases += [{"part": "nest", "root": ["probe", p], "max_nest": 0, "max_len": 1} for p in PROBES]
    keys = list(ENV_VALUES)
    for combo in itertools.product(*[ENV_VALUES[k] for k in keys]):
        if tier == "quick" and (combo[2], combo[3]) not in ((None, None), ("True", "False"), ("False", "True")):
            continue  # quick: cache flags vary jointly; thorough: full product
        cases.append({"part": "env", "setting": dict(zip(keys, combo))})
    try:
        from mc.props import c18_depth

        cases += c18_depth.cases(tier, seed)
    except ImportError:
        pass
    return {
        "cases": cases,
        "bounds": {"nest.max_nesting": max_nest, "nest.max_history_len": max_len, "nest.enter_alphabet": len(ENTERS),
                   "nest.probes": PROBES, "env.settings": {k: v for k, v in ENV_VALUES.items()}},
        "rule": ("nest: BFS over enter/exit/exit-by-exception/probe histories on the real config_context, one state per "
                 "distinct model stack, every transition replayed from a fresh base; non-trivial = history contains an "
                 "exit or a probe whose documented verdict depends on the context. env: full product of documented "
                 "values incl. unset, one fresh interpreter each; non-trivial = at least one variable set. depth: see "
                 "c18_depth."),
        "exhaustive": True,
    }


def run_case(case):
    if case["part"] == "nest":
        root = tuple(case["root"])
        viol, states, trans = _bfs((root[0], root[1]), case["max_nest"], case["max_len"])
        # de-duplicate violation keys, keep first detail
        uniq = {}
        for v in viol:
            uniq.setdefault((v["clause"], v["key"]), v)
        return {"viol": list(uniq.values()), "states": states, "transitions": trans, "execs": trans,
                "nontrivial": True, "outcome": "nest:ok" if not viol else "nest:viol"}
    if case["part"] == "env":
        viol, label = _run_env(case["setting"])
        return {"viol": viol, "states": 1, "transitions": 1, "execs": 1,
                "nontrivial": any(v is not None for v in case["setting"].values()), "outcome": "env:" + label}
    from mc.props import c18_depth

    return c18_depth.run_case(case)
