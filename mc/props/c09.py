"""C09 — data type resolution is coherent in every engine.

Exhaustive over the live registries: for each engine (numpy, pandas incl. pyarrow, polars, pyspark)
every key of Engine._registry[E].equivalents, every parametrised native dtype instantiated over a
finite parameter alphabet (time zones, units, categories, decimal precision/scale, period freq,
interval subtype, sparse, pyarrow nested), and ALL ordered pairs of resolved types.
Clauses:
  resolves          E.dtype(k) returns a DataType for every registered spelling k
  idempotent        E.dtype(E.dtype(k)) == E.dtype(k), equal hashes
  equivalents       keys registered for one data type resolve to equal, equally hashed objects
  str_roundtrip     E.dtype(str(t)) == t for primitive t (numpy, pandas, pyspark)
  self_check        t.check(t)
  no_cross_kind     physical numeric/bool/temporal t1: t1.check(t2) => same (kind, signedness, bit width)
Registry sizes are recorded in the evidence so a newly registered type is inside the quantifier.
"""
from __future__ import annotations

import itertools
import warnings

PROPERTY = "C09"
LEVEL = "model_checking"
ASSUMPTIONS = ["parametrised types are covered for the listed parameter alphabets only"]

ENGINES = ["numpy", "pandas", "polars", "pyspark"]


def _engine(name):
    from pandera.engines import numpy_engine, pandas_engine, polars_engine

    if name == "numpy":
        return numpy_engine.Engine
    if name == "pandas":
        try:
            from pandera.engines import pyarrow_engine  # noqa: F401  (registers pyarrow types with the pandas engine)
        except Exception:  # noqa
            pass
        return pandas_engine.Engine
    if name == "polars":
        return polars_engine.Engine
    from pandera.engines import pyspark_engine

    return pyspark_engine.Engine


def _param_instances(name):
    """finite alphabet of parametrised native dtypes"""
    out = []
    if name == "pandas":
        import numpy as np
        import pandas as pd

        tzs = ["UTC", "Europe/Berlin", "+01:00"]
        units = ["s", "ms", "us", "ns"]
        for tz in tzs:
            for u in units:
                out.append(pd.DatetimeTZDtype(unit=u, tz=tz))
        for cats in [(), ("a",), ("a", "b")]:
            for ordered in (False, True):
                out.append(pd.CategoricalDtype(list(cats), ordered=ordered))
        for f in ["D", "M", "Y", "h"]:
            try:
                out.append(pd.PeriodDtype(freq=f))
            except Exception:  # noqa
                pass
        for sub in ["int64", "float64", "datetime64[ns]"]:
            out.append(pd.IntervalDtype(subtype=sub))
        for sub in ["int64", "float64", "bool"]:
            out.append(pd.SparseDtype(sub))
        out += [pd.StringDtype("python")]
        try:
            out.append(pd.StringDtype("pyarrow"))
        except Exception:  # noqa
            pass
        try:
            import pyarrow as pa

            for p, s in [(1, 0), (10, 2), (28, 0), (38, 10)]:
                out.append(pd.ArrowDtype(pa.decimal128(p, s)))
            for u in units:
                for tz in [None, "UTC", "Europe/Berlin"]:
                    out.append(pd.ArrowDtype(pa.timestamp(u, tz=tz)))
            for u in units:
                out.append(pd.ArrowDtype(pa.duration(u)))
            out += [pd.ArrowDtype(pa.time32("s")), pd.ArrowDtype(pa.time32("ms")), pd.ArrowDtype(pa.time64("us")), pd.ArrowDtype(pa.time64("ns"))]
            out += [pd.ArrowDtype(pa.list_(pa.int64())), pd.ArrowDtype(pa.list_(pa.string())), pd.ArrowDtype(pa.list_(pa.int64(), 2)),
                    pd.ArrowDtype(pa.struct([("x", pa.int64()), ("y", pa.string())])), pd.ArrowDtype(pa.map_(pa.string(), pa.int64())),
                    pd.ArrowDtype(pa.dictionary(pa.int32(), pa.string())), pd.ArrowDtype(pa.dictionary(pa.int8(), pa.int64(), True))]
            for t in [pa.int8(), pa.int16(), pa.int32(), pa.int64(), pa.uint8(), pa.uint16(), pa.uint32(), pa.uint64(), pa.float16(),
                      pa.float32(), pa.float64(), pa.bool_(), pa.string(), pa.binary(), pa.date32(), pa.date64(), pa.large_string()]:
                out.append(pd.ArrowDtype(t))
        except ImportError:
            pass
    elif name == "polars":
        import polars as pl

        for p, s in [(None, 0), (10, 2), (28, 0), (38, 10)]:
            out.append(pl.Decimal(p, s))
        for u in ["ms", "us", "ns"]:
            for tz in [None, "UTC", "Europe/Berlin"]:
                out.append(pl.Datetime(u, tz))
            out.append(pl.Duration(u))
        out += [pl.List(pl.Int64), pl.List(pl.Utf8), pl.Array(pl.Int64, 2), pl.Struct({"x": pl.Int64, "y": pl.Utf8}), pl.Categorical(),
                pl.Enum(["a", "b"]), pl.Enum([])]
    elif name == "pyspark":
        from pyspark.sql import types as T

        for p, s in [(1, 0), (10, 2), (28, 0), (38, 10)]:
            out.append(T.DecimalType(p, s))
        out += [T.ArrayType(T.IntegerType()), T.ArrayType(T.StringType(), False), T.MapType(T.StringType(), T.IntegerType()),
                T.MapType(T.StringType(), T.StringType(), False)]
    elif name == "numpy":
        import numpy as np

        for u in ["s", "ms", "us", "ns", "D"]:
            out.append(np.dtype(f"datetime64[{u}]"))
            out.append(np.dtype(f"timedelta64[{u}]"))
    return out


def _kind(t):
    """(kind, signed, bit width) of a pandera DataType via the abstract pandera.dtypes hierarchy"""
    from pandera import dtypes as D

    order = [("bool", D.Bool), ("uint", D.UInt), ("int", D.Int), ("float", D.Float), ("complex", D.Complex), ("decimal", D.Decimal),
             ("datetime", D.DateTime), ("date", D.Date), ("timedelta", D.Timedelta), ("category", D.Category), ("string", D.String),
             ("binary", D.Binary) if hasattr(D, "Binary") else ("binary", ())]
    for nm, cls in order:
        if cls and isinstance(t, cls):
            bw = getattr(t, "bit_width", None)
            sg = getattr(t, "signed", None)
            return (nm, sg if nm in ("int", "uint") else None, bw if nm in ("int", "uint", "float", "complex") else None)
    return ("other:" + type(t).__name__, None, None)


def _native_bits(t):
    """bit width of the NATIVE type a resolved DataType boxes (None when it has none / cannot be told): the abstract hierarchy's
    bit_width attribute is inherited and may not describe the boxed type (pyspark's IntegerType is 32 bit wide, its pandera class
    inherits 64), so the width clause is judged on the native type where it has one"""
    nt = getattr(t, "type", None)
    mod = type(nt).__module__ or ""
    try:
        if mod.startswith("pyspark"):
            return {"ByteType": 8, "ShortType": 16, "IntegerType": 32, "LongType": 64, "FloatType": 32, "DoubleType": 64}.get(type(nt).__name__)
        if mod.startswith("numpy") and hasattr(nt, "itemsize") and getattr(nt, "kind", "") in "iufc":
            return nt.itemsize * 8
        if hasattr(nt, "pyarrow_dtype"):
            return nt.pyarrow_dtype.bit_width
        if mod.startswith("pandas") and hasattr(nt, "itemsize") and getattr(nt, "kind", "") in "iuf":
            return nt.itemsize * 8
        if mod.startswith("polars") or (isinstance(nt, type) and (nt.__module__ or "").startswith("polars")):
            nm = nt.__name__ if isinstance(nt, type) else type(nt).__name__
            import re as _re
            m = _re.fullmatch(r"(?:U?Int|Float)(\d+)", nm)
            return int(m.group(1)) if m else None
    except Exception:  # noqa
        return None
    return None


def _kind_native(t):
    k = _kind(t)
    if k[0] in ("int", "uint", "float", "complex"):
        nb = _native_bits(t)
        if nb is not None:
            return (k[0], k[1], nb)
    return k


PHYSICAL = ("bool", "uint", "int", "float", "complex", "datetime", "date", "timedelta")
PRIMITIVE_FOR_STR = ("bool", "uint", "int", "float", "complex", "datetime", "date", "timedelta", "category", "string")


def _safe(fn, *a):
    try:
        with warnings.catch_warnings():
            warnings.simplefilter("ignore")
            return True, fn(*a)
    except Exception as e:  # noqa
        return False, e


def _label(k):
    r = repr(k)
    return r if len(r) <= 70 else r[:67] + "..."


def _explore(name):
    from pandera.engines import engine as eng

    E = _engine(name)
    reg = eng.Engine._registry[E]
    viol = {}
    resolved = {}      # label -> DataType
    n_checks = 0

    def add(clause, key, detail):
        viol.setdefault((clause, f"{name}:{key}"), detail)

    keys = list(reg.equivalents.items())
    params = _param_instances(name)
    # 1. resolves + idempotent
    for k, registered in keys + [(p, None) for p in params]:
        ok, t = _safe(E.dtype, k)
        n_checks += 1
        if not ok:
            add("resolves", f"{type(t).__name__}:{_label(k)}", f"E.dtype({k!r}) raised {t!r}")
            continue
        resolved[_label(k)] = t
        if registered is None and not isinstance(k, str) and name in ("pandas", "polars") and hasattr(t, "type"):
            # the resolved data type denotes the native parametrised dtype it was resolved from (unit, tz, categories, ... kept):
            # two different native dtypes must not collapse into one pandera type
            oks, same = _safe(lambda: bool(t.type == k))
            if not oks or not same:
                add("denotes_native", f"{type(t).__name__}:{_label(k)}", f"E.dtype({k!r}).type == {t.type!r}")
        ok2, t2 = _safe(E.dtype, t)
        if not ok2:
            add("idempotent", f"raises:{type(t).__name__}", f"E.dtype(E.dtype({k!r})) raised {t2!r}")
        else:
            okh, same_hash = _safe(lambda: hash(t2) == hash(t))
            oke, ne = _safe(lambda: bool(t2 != t))
            if not oke or ne or not okh or not same_hash:
                add("idempotent", f"{type(t).__name__}:{_label(k)}", f"{t!r} -> {t2!r} equal={t2 == t} hash_ok={okh and same_hash}")
        if registered is not None:
            okh, hh = _safe(lambda: hash(t) == hash(registered))
            oke, ne = _safe(lambda: bool(t != registered))
            if not oke or ne or not okh or not hh:
                add("equivalents", f"{type(registered).__name__}:{_label(k)}", f"registered {registered!r} but E.dtype gives {t!r}")
    # 2. equivalence classes (keys registered for the same instance)
    classes = {}
    for k, registered in keys:
        classes.setdefault(id(registered), []).append(k)
    for ks in classes.values():
        ts = [resolved.get(_label(k)) for k in ks]
        ts = [t for t in ts if t is not None]
        for a, b in zip(ts, ts[1:]):
            okc, bad = _safe(lambda: bool(a != b) or hash(a) != hash(b))
            if not okc or bad:
                add("equivalents", f"class:{type(a).__name__}", f"{ks[:5]} resolve to unequal objects {a!r} {b!r}")
    # distinct resolved types
    uniq = []

    def _eq(a, b):
        ok, r = _safe(lambda: bool(a == b))
        if not ok:
            add("equality_total", f"{type(a).__name__}=={type(b).__name__}:{type(r).__name__}", f"{a!r} == {b!r} raised {r!r}")
            return False
        return r

    for t in resolved.values():
        if not any(t is u or (type(t) is type(u) and _eq(t, u)) for u in uniq):
            uniq.append(t)
    # 3. str round trip
    if name in ("numpy", "pandas", "pyspark"):
        for t in uniq:
            kind = _kind(t)[0]
            if kind not in PRIMITIVE_FOR_STR:
                continue
            s = str(t)
            ok, t2 = _safe(E.dtype, s)
            n_checks += 1
            if not ok:
                add("str_roundtrip", f"unresolvable:{type(t).__name__}:{s}", f"E.dtype(str(t)) with str(t)={s!r} raised {t2!r}")
            elif not _eq(t2, t):
                add("str_roundtrip", f"different:{type(t).__name__}:{s}", f"str(t)={s!r} resolves to {t2!r} != {t!r}")
    # 4. self check, 5. cross-kind
    for t in uniq:
        ok, r = _safe(t.check, t)
        n_checks += 1
        if not ok:
            add("self_check", f"raises:{type(t).__name__}", f"{t!r}.check(self) raised {r!r}")
        elif r is not True and not (hasattr(r, "all") and bool(r.all())):
            add("self_check", f"false:{type(t).__name__}", f"{t!r}.check(self) -> {r!r}")
    for t1 in uniq:
        k1 = _kind(t1)
        if k1[0] not in PHYSICAL:
            continue
        if name == "pandas" and k1[0] == "date":
            continue  # pandas has no physical date dtype: python dates live in object columns
        for t2 in uniq:
            ok, r = _safe(t1.check, t2)
            n_checks += 1
            if ok and r is True:
                k2 = _kind(t2)
                if k1 != k2:
                    add("no_cross_kind", f"{type(t1).__name__}{k1}~{type(t2).__name__}{k2}", f"{t1!r}.check({t2!r}) is True")
                elif _kind_native(t1) != _kind_native(t2):
                    add("no_cross_kind", f"native:{type(t1).__name__}{_kind_native(t1)}~{type(t2).__name__}{_kind_native(t2)}",
                        f"{t1!r}.check({t2!r}) is True although the boxed native types differ in bit width")
    return viol, len(keys), len(params), len(uniq), n_checks


def plan(tier, seed):
    return {"cases": [{"engine": e} for e in ENGINES], "exhaustive": True,
            "bounds": {"engines": ENGINES, "parameters": "tz in {UTC, Europe/Berlin, +01:00}; units s/ms/us/ns; categories (), (a), (a,b) x ordered; "
                                                          "decimal (1,0),(10,2),(28,0),(38,10); period D/M/Y/h; interval/sparse subtypes; pyarrow nested"},
            "rule": "one case = one engine; states = registered spellings + generated parametrisations, transitions = resolutions and "
                    "check() calls incl. all ordered pairs of distinct resolved types; non-trivial = every spelling (each exercises a resolution path)"}


def run_case(case):
    viol, nkeys, nparams, nuniq, nchecks = _explore(case["engine"])
    v = [{"clause": c, "key": k, "detail": d[:800]} for (c, k), d in viol.items()]
    return {"viol": v, "states": nkeys + nparams, "transitions": nchecks, "execs": nchecks, "nontrivial": True,
            "nontrivial_n": nkeys + nparams, "outcome": f"{case['engine']}:keys={nkeys}:params={nparams}:types={nuniq}",
            "counters": {f"{case['engine']}.registry_keys": nkeys, f"{case['engine']}.param_instances": nparams,
                         f"{case['engine']}.distinct_types": nuniq}}
