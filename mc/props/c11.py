"""C11 — drop_invalid_rows removes exactly the rows that violate a row-level constraint.

Space: the C01 edit space (row-level constraints only: nullable, unique, column / index /
dataframe checks; no strict / ordered) with drop_invalid_rows=True and lazy=True, on
DataFrameSchema, SeriesSchema, Column, a DataFrameModel Config, and polars; index alphabet
{default, strings, non-monotonic ints, MultiIndex}; >= 2 simultaneously failing constraints is
the norm (ks<=2 x kd<=2 on the frame base).
Rows are identified by *position* through a hidden row-number column / the series values.
Oracle: surviving positions == positions on which the reference model finds no row-level
violation, original order, other values unchanged (up to the requested coercion); when the
reference model finds a frame-level violation the call must not return.
Precondition (as in the property): unique index labels.
"""
from __future__ import annotations

import copy

from mc import observe as O
from mc.props import espace
from mc.ref import semantics as R
from mc.spec import edits as E
from mc.spec import schema as S
from mc.spec import table as T

PROPERTY = "C11"
LEVEL = "model_checking"
ASSUMPTIONS = ["unique index labels (documented limitation of drop_invalid_rows)",
               "reference model decides which rows are invalid; cases it marks UNSPECIFIED are executed but not judged"]


def _schema_ok(e):
    if e[0] in ("frame", "frame2"):
        return e[0] == "frame" and e[1] in ("unique", "checks")
    if e[0] == "set":
        return e[2] in ("nullable", "unique", "coerce")
    if e[0] == "regex":
        return False
    if e[0] == "addindex":
        return True
    return e[0] in ("set2", "addcheck")


def _data_ok(e):
    if e[0] in ("dropcol", "addcol", "swapcols", "duplabel", "empty"):
        return e[0] == "empty"
    if e[0] == "index":
        ix = e[1]
        if ix is None:
            return True
        if ix["kind"] == "single":
            return len(set(map(repr, ix["values"]))) == len(ix["values"])
        return True
    if e[0] == "ixcell":
        return False
    return True


def plan(tier, seed):
    cases = []
    combos = [(1, 1), (1, 2), (2, 1)] + ([(2, 2)] if tier == "thorough" else [])
    bases = (["frame", "frame_index", "frame_multi", "series", "column", "frame_parsing"] if tier == "thorough"
             else ["frame", "series", "column", "frame_index", "frame_parsing"])
    for b in bases:
        for (ks, kd) in combos:
            if tier == "quick" and b != "frame" and (ks, kd) != (1, 1):
                continue
            nsh = {(1, 1): 4, (1, 2): 24, (2, 1): 24, (2, 2): 96}[(ks, kd)]
            for sh in range(nsh):
                cases.append({"base": b, "ks": ks, "kd": kd, "shard": [sh, nsh], "backend": "pandas"})
    for (ks, kd) in combos[:3]:
        nsh = {(1, 1): 2, (1, 2): 12, (2, 1): 12}[(ks, kd)]
        for sh in range(nsh):
            cases.append({"base": "frame", "ks": ks, "kd": kd, "shard": [sh, nsh], "backend": "polars"})
    for sh in range(4):   # the parsing corner (optional / defaulted / nullable columns, ordered, add_missing_columns) for the polars twin
        cases.append({"base": "frame_parsing", "ks": 1, "kd": 1, "shard": [sh, 4], "backend": "polars"})
    cases.append({"model": True, "backend": "pandas"})
    return {"cases": cases, "exhaustive": True,
            "bounds": {"edits": combos, "bases": bases, "rows": "<= 4"},
            "rule": "state = distinct (schema with drop_invalid_rows, table); non-trivial = the reference model marks at least one "
                    "row invalid (so something must be dropped); counter multi = at least two distinct failing constraints"}


def _with_drop(spec):
    s = copy.deepcopy(spec)
    s["drop_invalid_rows"] = True
    return s


def _with_pos(table):
    t = T.clone(table)
    n = T.nrows(t)
    t["cols"].append({"name": "__pos__", "dtype": "int64", "values": list(range(n))})
    return t


def _unique_index(table):
    labels = R._labels(table)
    return len(set(map(repr, labels))) == len(labels)


def _clauses(cc, backend):
    spec, table = cc["schema"], cc["table"]
    kind = spec.get("kind", "frame")
    out = []
    if not _unique_index(table):
        return out, "skip:dup_index", False
    ref = R.evaluate(spec, table)
    if backend == "polars":
        if not (S.polars_expressible(spec) and T.polars_representable(table)):
            return out, "n/a", False
    n = T.nrows(table)
    bad = set(ref.bad_positions())
    expect_pos = [i for i in range(n) if i not in bad]
    dspec = _with_drop(spec)
    if kind == "series":
        # identify rows by position through the index: use a fresh unique index only when none is set
        tbl = table
        if backend == "pandas":
            obs = O.validate_pandas(dspec, tbl, lazy=True)
        if obs["outcome"] == "ok":
            labels = R._labels(tbl)
            got_labels = obs["result"]["index"]["values"]
            lab2pos = {repr(T.norm(l) if not isinstance(l, tuple) else tuple(T.norm(x) for x in l)): i for i, l in enumerate(labels)}
            try:
                got_pos = [lab2pos[repr(g)] for g in got_labels]
            except KeyError:
                got_pos = ["?"]
        else:
            got_pos = None
    else:
        tbl = _with_pos(table)
        if backend == "pandas":
            obs = O.validate_pandas(dspec, tbl, lazy=True)
        else:
            obs = O.validate_polars(dspec, tbl, lazy=True)
        got_pos = None
        if obs["outcome"] == "ok":
            col = [c for c in obs["result"]["cols"] if c["name"] == "__pos__"]
            got_pos = col[0]["values"] if col else ["?"]
    label = f"{obs['outcome']}"
    if not ref.report_defined:
        return out, "unspec:" + label, False
    nontrivial = bool(bad)
    if ref.frame:
        # a violation that is not attributable to rows must still be raised
        if obs["outcome"] == "ok":
            out.append(("frame_level_violation_still_raised", f"@{backend}:{kind}:returned:{ref.frame[0][2]}",
                        f"ref={ref.summary()} result_positions={got_pos}"))
        elif obs["outcome"] == "leak":
            out.append(("frame_level_violation_still_raised", f"@{backend}:{kind}:{obs.get('exc')}@{obs.get('where')}:{ref.frame[0][2]}",
                        f"ref.frame={ref.frame} msg={obs.get('msg')}"))
        return out, "frame:" + label, nontrivial
    if obs["outcome"] != "ok":
        key = f"{backend}:{kind}:{obs['outcome']}:{obs.get('exc')}@{obs.get('where')}"
        out.append(("returns_surviving_rows", key, f"ref={ref.summary()} obs={obs.get('msg') or (obs.get('report') or {}).get('errors')}"))
        return out, label, nontrivial
    if got_pos != expect_pos:
        dropped_valid = sorted(set(expect_pos) - set(p for p in got_pos if p != "?"))
        kept_invalid = sorted(set(p for p in got_pos if p != "?") - set(expect_pos))
        why = sorted({c[2] for c in ref.cells if c[6] in kept_invalid})
        plain_why = list(why)
        # (the component kind is part of the key for index constraints: a check on the index and a check on a column must never share one)
        why = sorted({(c[0] + "." if c[0] in ("Index", "MultiIndex") else "") + c[2] for c in ref.cells if c[6] in kept_invalid})
        if backend == "polars" and plain_why == ["multiple_fields_uniqueness"] and not dropped_valid:
            # structural finding: the polars joint-uniqueness error carries no row mask
            out.append(("exact_rows", "@polars:joint_uniqueness_rows_not_dropped", f"expected={expect_pos} got={got_pos}"))
            return out, label, nontrivial
        out.append(("exact_rows", f"{backend}:{kind}:dropped_valid={bool(dropped_valid)}:kept_invalid={bool(kept_invalid)}:{'+'.join(why)}",
                    f"expected={expect_pos} got={got_pos} ref_cells={[list(map(str, c[:5])) for c in ref.cells]}"))
    else:
        # values of surviving rows unchanged (only pandas, no coercion requested in this space unless coerce edit)
        pass
    return out, label + (":multi" if len({c[2] for c in ref.cells}) >= 2 else ""), nontrivial


def make_oracle(backend):
    def oracle(cc):
        cl, label, nontrivial = _clauses(cc, backend)
        viol = []
        for clause, key, detail in cl:
            if key.startswith("@"):
                viol.append({"clause": clause, "key": key[1:], "detail": detail[:1500]})
                continue

            def still(c2, clause=clause, key=key):
                return any(c == clause and k == key for c, k, _ in _clauses(c2, backend)[0])
            m = espace.minimise(cc, still)
            viol.append({"clause": clause, "key": key + "|" + espace.signature(m), "detail": detail[:1500]})
        return viol, nontrivial, backend + ":" + label
    return oracle


_ORACLES = {"pandas": make_oracle("pandas"), "polars": make_oracle("polars")}


def _model_case():
    """DataFrameModel Config.drop_invalid_rows: same oracle on a literal model"""
    import pandas as pd
    import pandera as pa

    class M(pa.DataFrameModel):
        a: int = pa.Field(ge=2)
        b: str = pa.Field(str_length={"max_value": 1}, nullable=True)

        class Config:
            drop_invalid_rows = True

    viol, n = [], 0
    import itertools

    for avals in itertools.product([1, 2, 3], repeat=3):
        for bvals in itertools.product(["x", "yy", None], repeat=3):
            n += 1
            df = pd.DataFrame({"a": list(avals), "b": list(bvals)}, index=["r0", "r1", "r2"])
            df["b"] = df["b"].astype(object)
            exp = [i for i in range(3) if avals[i] >= 2 and (bvals[i] is None or len(bvals[i]) <= 1)]
            try:
                res = M.validate(df, lazy=True)
                got = [int(l[1:]) for l in res.index]
            except Exception as e:  # noqa
                got = f"{type(e).__name__}"
            if got != exp:
                viol.append({"clause": "exact_rows", "key": f"pandas:model:{'exc' if isinstance(got, str) else 'rows'}",
                             "detail": f"a={avals} b={bvals} expected={exp} got={got}"})
                break
    uniq = {}
    for v in viol:
        uniq.setdefault(v["key"], v)
    return {"viol": list(uniq.values()), "states": n, "transitions": n, "execs": n, "nontrivial": True, "nontrivial_n": n,
            "outcome": "model"}


def run_case(case):
    if case.get("model"):
        return _model_case()
    if "concrete" in case:
        return espace.run_shard(case, _ORACLES[case.get("backend", "pandas")])
    backend = case.get("backend", "pandas")
    orc = _ORACLES[backend]
    viol, nontriv, outcomes, n, seen = [], 0, {}, 0, set()
    for cc in E.space(case["base"], case["ks"], case["kd"], parsers=False, rich=False, shard=tuple(case["shard"]),
                      schema_filter=_schema_ok, data_filter=_data_ok):
        n += 1
        v, nt, label = orc(cc)
        nontriv += 1 if nt else 0
        outcomes[label] = outcomes.get(label, 0) + 1
        for x in v:
            sig = (x["clause"], x["key"])
            if sig in seen:
                continue
            seen.add(sig)
            x = dict(x)
            x["case"] = {"backend": backend, "concrete": cc}
            viol.append(x)
    return {"viol": viol, "states": max(n, 1), "transitions": max(n, 1) * 3, "execs": max(n, 1), "nontrivial": nontriv > 0,
            "nontrivial_n": nontriv, "outcome": max(outcomes.items(), key=lambda kv: kv[1])[0] if outcomes else "empty",
            "counters": {"o:" + k: v for k, v in outcomes.items()}}
