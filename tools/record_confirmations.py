#!/venv/bin/python
"""Reads /var/tmp/seed_verify.log (+ /tmp/seedverify_<id>.suite.log) and writes the confirmation of each seeded change into
seeded/<id>/meta.json ("confirmed", "status").  A change is confirmed when its demo exits 0 without and 1 with the patch and every
pinned stable test passes with the patch, apart from the hash-order dependent flakes that also fail on the original commit."""
import json, os, re, sys
ROOT = os.path.dirname(os.path.dirname(os.path.abspath(__file__)))
FLAKE = re.compile(r"test_schemas_on_pyspark_pandas::test_nullable\[|test_strategies::test_check_nullable_field_strategy\[")
last = {}
for line in open("/var/tmp/seed_verify.log"):
    m = re.match(r"(\S+) demo_clean_exit=(\d+) demo_patched_exit=(\d+) suite: exit=(\d+) stable_pass=(\d+) ran=(\d+) passed_now=(\d+) stable_but_not_passing=(\d+)", line)
    if m:
        last[m.group(1)] = m
n = 0
for sid, m in sorted(last.items()):
    mp = os.path.join(ROOT, "seeded", sid, "meta.json")
    if not os.path.isfile(mp):
        continue
    meta = json.load(open(mp))
    regs = []
    sl = f"/tmp/seedverify_{sid}.suite.log"
    if os.path.exists(sl):
        regs = [l.split()[1] for l in open(sl) if l.strip().startswith("REGRESSION")]
    nonflake = [r for r in regs if not FLAKE.search(r)]
    clean, patched, notpass = int(m.group(2)), int(m.group(3)), int(m.group(8))
    ok = clean == 0 and patched == 1 and not nonflake and notpass <= 3 and len(regs) == notpass
    text = (f"demo exit {clean} without / {patched} with the patch; pinned suite with the patch: ran={m.group(6)} passed={m.group(7)}, "
            f"stable tests not passing={notpass}" + (" (all hash-order flakes that also fail on the original commit)" if notpass and not nonflake else "")
            + (f"; REGRESSIONS: {nonflake[:4]}" if nonflake else ""))
    if meta.get("status") == "rejected":
        meta["confirmed"] = text + " -> rejected"
    else:
        meta["confirmed"] = text + (" -> confirmed" if ok else " -> NOT confirmed")
        if not ok:
            meta["status"] = "unconfirmed"
        elif meta.get("status") == "unconfirmed":
            meta.pop("status")
    json.dump(meta, open(mp, "w"), indent=1)
    n += 1
    if not ok and meta.get("status") != "rejected":
        print("NOT CONFIRMED", sid, text)
print("recorded", n)
