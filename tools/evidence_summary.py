#!/venv/bin/python
"""Prints one line per property from evidence/*.json (cases, states, transitions, wall) -- used to refresh DESIGN.md section 0.7."""
import glob, json, os
ROOT = os.path.dirname(os.path.dirname(os.path.abspath(__file__)))
for f in sorted(glob.glob(os.path.join(ROOT, "evidence", "C*.json"))):
    e = json.load(open(f)); c = e.get("coverage", {})
    print(e["property_id"], e.get("tier"), "cases=%s states=%s transitions=%s executions=%s wall=%ss violations=%s" % (
        c.get("cases"), c.get("states"), c.get("transitions"), c.get("evaluations"), e.get("wall_s"), e.get("violations")))
