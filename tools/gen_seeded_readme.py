#!/venv/bin/python
"""Writes seeded/README.md (the table of seeded changes and the checks that catch them) from seeded/*/meta.json."""
import json
import os

ROOT = os.path.dirname(os.path.dirname(os.path.abspath(__file__)))
S = os.path.join(ROOT, "seeded")

rows = []
for d in sorted(os.listdir(S)):
    mp = os.path.join(S, d, "meta.json")
    if not os.path.isfile(mp):
        continue
    m = json.load(open(mp))
    rows.append((d, m))

out = ["# Seeded property-breaking changes", "",
       "Each directory holds `patch.diff` (apply with `git -C /repo apply`), the sub-agent's demonstration (`demo.py`: exit 0 on the "
       "unchanged tree, exit 1 with the patch), its `NOTES.md`, and `meta.json`. Every change was written by a fresh sub-agent that saw "
       "only the text of one property and its own scratch worktree; it was then confirmed here in a scratch worktree of /repo's HEAD "
       "(`tools/seed_verify.sh`: demo passes without / fails with the patch, pinned suite shows no regression beyond the three "
       "hash-order dependent flakes that also occur on the original commit) and run against the checks with `tools/seedtest.py`.", "",
       "`status`: **kept** = confirmed and used; **rejected** = the existing suite notices it (kept only as a record).", "",
       "| seed | property | status | what it needs to manifest | caught by (tier: clause) | strengthening it prompted |", "|---|---|---|---|---|---|"]
for d, m in rows:
    caught = "; ".join(f"{k} {v}" for k, v in (m.get("caught_by") or {}).items())
    out.append(f"| {d} | {m.get('property')} | {m.get('status', 'kept')} | {m.get('needs', '')} | {caught} | {m.get('strengthened', '-')} |")
out += ["", "## Confirmation log", ""]
for d, m in rows:
    out.append(f"* **{d}** — {m.get('breaks', '')}  \n  confirmed: {m.get('confirmed', 'pending')}")
open(os.path.join(S, "README.md"), "w").write("\n".join(out) + "\n")
print("wrote", os.path.join(S, "README.md"), len(rows), "seeds")
