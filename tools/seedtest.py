#!/venv/bin/python
"""Run registered checks against a seeded change.

usage: seedtest.py <seed-dir-or-id> [--tier quick|thorough] [--checks C01,C02,...] [--all]

Applies seeded/<id>/patch.diff to /repo (which must be clean), runs the chosen checks (default: the check of
the property named in meta.json), prints one line per check (exit code, VIOLATION lines), and ALWAYS restores /repo
(`git checkout -- .`) afterwards.  Evidence files rewritten during the run are restored from git as well, because
evidence committed in /verif must come from the unchanged tree.
"""
import argparse
import json
import os
import subprocess
import sys
import time

ROOT = os.path.dirname(os.path.dirname(os.path.abspath(__file__)))
REPO = "/repo"


def sh(cmd, **kw):
    return subprocess.run(cmd, shell=True, text=True, capture_output=True, **kw)


def run_in_worktree(sdir, patch, checks, tier):
    """default mode: scratch worktree of /repo's HEAD + VERIF_REPO/VERIF_OUT, so several seeds can be tried in parallel
    and neither /repo nor /verif/evidence is touched"""
    sid = os.path.basename(sdir.rstrip("/"))
    wt, out = f"/tmp/seedrun_{sid}_{os.getpid()}", f"/tmp/seedrun_{sid}_{os.getpid()}_out"
    sh(f"git -C {REPO} worktree add --detach {wt} HEAD")
    results = {}
    try:
        r = sh(f"git -C {wt} apply {patch}")
        if r.returncode:
            sys.exit(f"patch does not apply: {r.stderr}")
        for c in checks:
            t0 = time.time()
            env = dict(os.environ, VERIF_TIER=tier, VERIF_REPO=wt, VERIF_OUT=out)
            p = subprocess.run(["/venv/bin/python", os.path.join(ROOT, "run.py"), c, "--tier", tier], text=True, capture_output=True,
                               env=env, cwd=ROOT)
            viol = [l for l in p.stdout.splitlines() if l.startswith("VIOLATION")]
            results[c] = {"exit": p.returncode, "violations": len(viol), "first": viol[:3], "wall_s": round(time.time() - t0, 1)}
            print(f"{sid} {c} tier={tier} exit={p.returncode} violations={len(viol)} wall={results[c]['wall_s']}s", flush=True)
            for v in viol[:3]:
                print("    " + v[:260].replace(out, "<out>"), flush=True)
            if p.returncode not in (0, 1):
                print("    stderr: " + p.stderr[-800:])
    finally:
        sh(f"git -C {REPO} worktree remove --force {wt}")
        sh(f"rm -rf {out}")
    print(json.dumps(results))


def main():
    ap = argparse.ArgumentParser()
    ap.add_argument("seed")
    ap.add_argument("--tier", default="quick")
    ap.add_argument("--checks")
    ap.add_argument("--all", action="store_true")
    ap.add_argument("--inplace", action="store_true", help="apply to /repo itself (exclusive) instead of a scratch worktree")
    args = ap.parse_args()
    sdir = args.seed if os.path.isdir(args.seed) else os.path.join(ROOT, "seeded", args.seed)
    patch = os.path.join(sdir, "patch.diff")
    meta = json.load(open(os.path.join(sdir, "meta.json"))) if os.path.exists(os.path.join(sdir, "meta.json")) else {}
    if args.all:
        checks = [c["property_id"] for c in json.load(open(os.path.join(ROOT, "MANIFEST.json")))["checks"]]
    elif args.checks:
        checks = args.checks.split(",")
    else:
        checks = [meta["property"]]
    if not args.inplace:
        return run_in_worktree(sdir, patch, checks, args.tier)
    dirty = sh(f"git -C {REPO} status --porcelain --untracked-files=no").stdout.strip()
    if dirty:
        sys.exit(f"/repo is not clean:\n{dirty}")
    r = sh(f"git -C {REPO} apply --check {patch}")
    if r.returncode:
        sys.exit(f"patch does not apply: {r.stderr}")
    sh(f"git -C {REPO} apply {patch}")
    results = {}
    try:
        for c in checks:
            t0 = time.time()
            env = dict(os.environ, VERIF_TIER=args.tier)
            p = subprocess.run(["/venv/bin/python", os.path.join(ROOT, "run.py"), c, "--tier", args.tier], text=True,
                               capture_output=True, env=env, cwd=ROOT)
            viol = [l for l in p.stdout.splitlines() if l.startswith("VIOLATION")]
            results[c] = {"exit": p.returncode, "violations": len(viol), "first": viol[:3], "wall_s": round(time.time() - t0, 1)}
            print(f"{os.path.basename(sdir)} {c} tier={args.tier} exit={p.returncode} violations={len(viol)} wall={results[c]['wall_s']}s")
            for v in viol[:3]:
                print("    " + v[:260])
            if p.returncode not in (0, 1):
                print("    stderr: " + p.stderr[-500:])
    finally:
        sh(f"git -C {REPO} checkout -- .")
        sh(f"git -C {ROOT} checkout -- evidence")
    left = sh(f"git -C {REPO} status --porcelain --untracked-files=no").stdout.strip()
    if left:
        print("WARNING: /repo still dirty:", left)
    print(json.dumps(results))


if __name__ == "__main__":
    main()
