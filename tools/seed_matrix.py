#!/venv/bin/python
"""usage: seed_matrix.py [--jobs N] [--only PATTERN] [--update-meta]
Runs the quick tier of each seeded change's own property against the change (tools/seedtest.py, scratch worktree each) and prints
one line per seed: caught / MISSED and the first violation signature.  With --update-meta the result is written to
seeded/<id>/meta.json under "last_run" (the hand-written "caught_by" text is left alone).  Rejected seeds are skipped."""
import argparse, concurrent.futures as cf, json, os, re, subprocess, sys, time
ROOT = os.path.dirname(os.path.dirname(os.path.abspath(__file__)))
ap = argparse.ArgumentParser(); ap.add_argument("--jobs", type=int, default=3); ap.add_argument("--only", default=""); ap.add_argument("--update-meta", action="store_true")
a = ap.parse_args()
seeds = []
for d in sorted(os.listdir(os.path.join(ROOT, "seeded"))):
    mp = os.path.join(ROOT, "seeded", d, "meta.json")
    if os.path.isfile(mp) and re.search(a.only, d):
        m = json.load(open(mp))
        if m.get("status") != "rejected":
            seeds.append((d, m))
def run(item):
    d, m = item
    t0 = time.time()
    p = subprocess.run(["/venv/bin/python", os.path.join(ROOT, "tools", "seedtest.py"), d, "--checks", m["property"]], text=True, capture_output=True)
    viol = [l.strip() for l in p.stdout.splitlines() if l.strip().startswith("VIOLATION")]
    ex = re.search(r"exit=(\d+) violations=(\d+)", p.stdout)
    return d, m, (int(ex.group(1)) if ex else -1), (int(ex.group(2)) if ex else 0), [re.sub(r"replay=\S+ ", "", v)[:300] for v in viol[:2]], round(time.time() - t0)
missed = 0
with cf.ThreadPoolExecutor(a.jobs) as ex:
    for d, m, code, nv, first, wall in ex.map(run, seeds):
        ok = code == 1 and nv > 0
        missed += not ok
        print(f"{'caught' if ok else 'MISSED'} {d} [{m['property']} quick] violations={nv} {wall}s  {first[0] if first else ''}", flush=True)
        if a.update_meta:
            mp = os.path.join(ROOT, "seeded", d, "meta.json")
            mm = json.load(open(mp)); mm["last_run"] = {"caught": ok, "violations": nv, "first": first, "date": time.strftime("%Y-%m-%d")}
            json.dump(mm, open(mp, "w"), indent=1)
print(f"seeds={len(seeds)} missed={missed}")
sys.exit(1 if missed else 0)
