#!/venv/bin/python
"""Writes /verif/MANIFEST.json from the table below (kept in one place so it stays valid)."""
import json
import os

ROOT = os.path.dirname(os.path.dirname(os.path.abspath(__file__)))
PY = "/venv/bin/python /verif/run.py"

ESPACE = ("bounded exhaustive enumeration (small-scope): every (schema, table) within <=k schema edits and <=k data edits "
          "of conforming bases, executed on the real library")

CHECKS = {
    "C01": dict(
        technique="explicit-state exhaustive enumeration of a deviation-bounded input space against a reference model",
        text="Every schema within <=2 declarative edits and every table within <=2 cell/shape/dtype/index edits of 8 conforming "
             "bases (DataFrameSchema, +Index, +MultiIndex, SeriesSchema(+index), stand-alone Column/Index) is validated by the real "
             "pandas backend and the verdict compared with a three-valued reference model of the documented semantics; on accept "
             "the result must equal the input. " + ESPACE,
        note="Trusted: the reference model (mc/ref/semantics.py) and its UNSPECIFIED list; values/lengths outside the alphabets are not covered.",
        ref="3/C01"),
    "C02": dict(
        technique="explicit-state exhaustive enumeration of a deviation-bounded input space; eager vs lazy differential plus reference-model report comparison",
        text="Every case of the C01 space is validated eagerly and lazily (pandas; the 'frame' base also on polars): raises(lazy) <=> raises(eager), "
             "the eager error is among the lazy errors, the lazy failure_cases multiset equals the reference model's offending cells plus one "
             "scalar entry per frame-level violation, error_counts equals a recount of schema_errors by reason, and the message has one entry per error.",
        note="Trusted: reference model where it declares the report defined; structural normalisations listed in mc/props/c02.py (dict-valued frame-check rows, MultiIndex scalar rows).",
        ref="3/C02"),
    "C03": dict(
        technique="explicit-state exhaustive enumeration of a deviation-bounded input space; re-validation oracle (fixpoint + strip(S))",
        text="Every (schema, table) of the parser-enabled edit space (coerce at every level, default, add_missing_columns, strict='filter', idempotent "
             "custom parsers, drop_invalid_rows) is validated eagerly and lazily on pandas (DataFrame, Series with/without index schema, Column, Index, "
             "MultiIndex) and polars (DataFrame and LazyFrame); every returned object must be accepted by the same schema with parsing switched off and "
             "must be a fixpoint of validate.",
        note="Trusted: strip_parsing (mc/spec/schema.py) really switches every parsing option off; custom parsers in the alphabet are idempotent.",
        ref="3/C03"),
    "C04": dict(
        technique="explicit-state exhaustive enumeration of a deviation-bounded input space; before/after snapshot invariant",
        text="Same parser-enabled space, every schema entry point (DataFrameSchema, SeriesSchema, Column, Index, MultiIndex, polars DataFrameSchema and "
             "Column on DataFrame and LazyFrame) x {eager, lazy} x {pass, fail}: a deep value snapshot of the argument is identical before and after, and the "
             "result has the input's container kind.",
        note="Trusted: snapshot function (values, dtypes, labels, index, names, attrs); in-place writes that restore identical values are invisible by design.",
        ref="3/C04"),
    "C18": dict(
        technique="explicit-state BFS over config_context histories + exhaustive enumeration of environment settings and depth decomposition",
        text="BFS over all enter/exit/exit-by-exception/probe histories of the real config_context up to nesting 3 (thorough 4), each "
             "transition replayed on the implementation and compared with a stack model; the full product of documented environment "
             "variable values each in a fresh interpreter; SAD <=> SO and DO over the shared schema x data space.",
        note="Trusted: stack model of save/override/restore, docs/source/configuration.md as the oracle for env vars and depth defaults.",
        ref="3/C18"),
}

PENDING = {}
ALL = [f"C{i:02d}" for i in range(1, 21)]


def main():
    checks = []
    for pid in ALL:
        if pid not in CHECKS:
            continue
        c = CHECKS[pid]
        checks.append({
            "property_id": pid,
            "quick_cmd": f"{PY} {pid} --tier quick",
            "thorough_cmd": f"{PY} {pid} --tier thorough",
            "evidence_file": f"/verif/evidence/{pid}.json",
            "replay_cmd_template": f"{PY} {pid} --replay {{path}}",
            "engine": "mc",
            "level_claimed": {"category": c.get("category", "model_checking"), "text": c["text"], "design_ref": c["ref"]},
            "level_note": c["note"],
            "technique": c["technique"],
        })
    na = [{"property_id": pid, "reason": PENDING.get(pid, "check not built yet in this session (work in progress; see DESIGN.md section 3 for the planned bounded exploration)")}
          for pid in ALL if pid not in CHECKS]
    man = {
        "version": 1,
        "setup_cmd": "/venv/bin/python -c \"import pandera, pandas, polars, jsonschema\"",
        "hooks": {
            "guard": "PANDERA_VERIF",
            "enable": "no source hooks: checks instrument pandera from outside (class swapping, sys.settrace, hypothesis provider); run.py sets PANDERA_VERIF=1 for its workers",
            "baseline_off_cmd": "cd /repo && env -u PANDERA_VERIF /venv/bin/python -m pytest -ra -q -p no:cacheprovider --timeout=900 --continue-on-collection-errors",
            "source_commits": [],
            "add_only": True,
        },
        "engines": [{"name": "mc", "path": "/verif/mc", "serves_properties": [c["property_id"] for c in checks],
                     "kind_free_text": "hand-written explicit-state / stateless bounded explorers driving the real pandera code; reference models as oracles"}],
        "checks": checks,
        "not_applicable": na,
        "notes": "All checks: /venv/bin/python /verif/run.py <ID> --tier quick|thorough [--replay file]. VERIF_SEED permutes sample choice only; coverage is seed independent.",
    }
    with open(os.path.join(ROOT, "MANIFEST.json"), "w") as fh:
        json.dump(man, fh, indent=1)
    try:
        import jsonschema

        jsonschema.validate(man, json.load(open("/root/.vp/MANIFEST.schema.json")))
        print("MANIFEST.json valid;", len(checks), "checks,", len(na), "not_applicable")
    except ImportError:
        pass


if __name__ == "__main__":
    main()
