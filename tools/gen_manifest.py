#!/venv/bin/python
"""Writes /verif/MANIFEST.json from the table below (kept in one place so it stays valid)."""
import json
import os

ROOT = os.path.dirname(os.path.dirname(os.path.abspath(__file__)))
PY = "/venv/bin/python /verif/run.py"

ESPACE = ("bounded exhaustive enumeration (small-scope): every (schema, table) within <=k schema edits and <=k data edits "
          "of conforming bases, executed on the real library")

CHECKS = {
    "C01": dict(
        technique="explicit-state exhaustive enumeration of a deviation-bounded input space against a reference model",
        text="Every schema within <=2 declarative edits and every table within <=2 cell/shape/dtype/index edits of 8 conforming "
             "bases (DataFrameSchema, +Index, +MultiIndex, SeriesSchema(+index), stand-alone Column/Index) plus a base with two columns of different parametrised categorical types is validated by the real "
             "pandas backend and the verdict compared with a three-valued reference model of the documented semantics; on accept "
             "the result must equal the input. " + ESPACE,
        note="Trusted: the reference model (mc/ref/semantics.py) and its UNSPECIFIED list; values/lengths outside the alphabets are not covered.",
        ref="3/C01"),
    "C02": dict(
        technique="explicit-state exhaustive enumeration of a deviation-bounded input space; eager vs lazy differential plus reference-model report comparison",
        text="Every case of the C01 space is validated eagerly and lazily (pandas; the 'frame' base also on polars): raises(lazy) <=> raises(eager), "
             "the eager error is among the lazy errors, the lazy failure_cases multiset equals the reference model's offending cells plus one "
             "scalar entry per frame-level violation, error_counts equals a recount of schema_errors by reason (also under validation depth SCHEMA_ONLY and DATA_ONLY), and the message has one entry per error.",
        note="Trusted: reference model where it declares the report defined; structural normalisations listed in mc/props/c02.py (dict-valued frame-check rows, MultiIndex scalar rows).",
        ref="3/C02"),
    "C03": dict(
        technique="explicit-state exhaustive enumeration of a deviation-bounded input space; re-validation oracle (fixpoint + strip(S))",
        text="Every (schema, table) of the parser-enabled edit space (coerce at every level, default, add_missing_columns, strict='filter', idempotent "
             "custom parsers, drop_invalid_rows) is validated eagerly and lazily on pandas (DataFrame, Series with/without index schema, Column, Index, "
             "MultiIndex) and polars (DataFrame and LazyFrame); every returned object must be accepted by the same schema with parsing switched off and "
             "must be a fixpoint of validate; for an unordered MultiIndex the order of the data's levels must not matter (same outcome and parsed object as with the levels in schema order). Corner bases (ordered + add_missing_columns + optional + default; coercing string Index; unordered coercing MultiIndex) put deep option combinations one edit away, the first also for polars.",
        note="Trusted: strip_parsing (mc/spec/schema.py) really switches every parsing option off; custom parsers in the alphabet are idempotent.",
        ref="3/C03"),
    "C04": dict(
        technique="explicit-state exhaustive enumeration of a deviation-bounded input space; before/after snapshot invariant",
        text="Same parser-enabled space, every schema entry point (DataFrameSchema, SeriesSchema, Column, Index, MultiIndex, polars DataFrameSchema and "
             "Column on DataFrame and LazyFrame) x {eager, lazy} x {pass, fail}: a deep value snapshot of the argument is identical before and after, and the "
             "result has the input's container kind.",
        note="Trusted: snapshot function (values, dtypes, labels, index, names, attrs); in-place writes that restore identical values are invisible by design.",
        ref="3/C04"),
    "C05": dict(
        technique="explicit-state exploration of operation histories on live schema objects (fingerprint invariant + differential outcome oracle)",
        text="For 12 seed schemas (plain, regex, MultiIndex, frame-level dtype, coerce-everything, all built-in checks, custom checks, tz-agnostic DateTime, "
             "model-born, SeriesSchema, polars, MultiIndex with one coercing level) every one of ~45 public operations (validation of good / bad / coercible / odd data, serialisation, statistics, strategy construction and one real example draw, transformations) is an edge that must be a self-loop on a structural fingerprint of the whole "
             "schema object graph + configuration + MODEL_CACHE entry, and every history of length <= 2 (thorough 3) is executed on one live object with each "
             "operation's outcome compared with its outcome on a fresh object; transforming methods must leave the receiver unchanged and not alias it.",
        note="Trusted: fingerprint walker (mc/ref/fingerprint.py); a single reachable state is an inductive argument only for state the fingerprint sees, the bounded differential part covers the rest.",
        ref="3/C05"),
    "C06": dict(
        category="fault_enumeration",
        technique="exhaustive enumeration of inputs for the error channel + stateless choice-point exploration of callback faults (every k-th invocation x exception class)",
        text="A: every case of the C01 and parser-enabled edit spaces on pandas and polars (eager and lazy, DataFrame and LazyFrame) and a non-dataframe argument "
             "alphabet must end in return / SchemaError / SchemaErrors / SchemaDefinitionError / SchemaInitError / TypeError-for-non-frames. B: 15 harness schemas "
             "with user callbacks of every kind (vectorised, element-wise, groupby-dict and groupby-callable checks on columns, index, frame; column and frame "
             "parsers; custom dtype check/coerce; polars checks); the fault-free run counts invocations N and every k <= N x {ValueError, KeyError, TypeError, custom, argument-less, a pandera SchemaError from nested validation} "
             "is replayed with the fault injected (thorough: all pairs): a check fault must surface as CHECK_ERROR, any callback fault must stay in the documented "
             "channel or be the injected object, and schema fingerprint / configuration / input snapshot must be unchanged afterwards.",
        note="Trusted: innermost-pandera-frame attribution of leaks; faults are ordinary exceptions raised by user callbacks.",
        ref="3/C06"),
    "C07": dict(
        technique="stateless model checking of thread interleavings on the real code: cooperative scheduler, iterative preemption bounding, DFS with prefix replay, conflict-based point reduction",
        text="16 harnesses of 2-3 real threads validating concurrently (shared coercing schema, pass/fail lazy, polars DataFrame vs LazyFrame, polars vs pandas in a "
             "user config_context, shared column, cold MODEL_CACHE, three threads, shared regex schema, frame-level dtype override, polars shared coercing / frame-dtype schema, "
             "unrelated pandas vs polars schemas, shared regex column on frames with different matches). Module- and class-level state that a validation writes is discovered automatically (snapshot diff around warm validations) and its writers are traced. Scheduling points sit before every "
             "attribute access of instrumented schema/component/check/config objects and every line of the functions touching module globals; a point is offered only "
             "where it conflicts with an access another thread may make (read/write sets grown to a fixpoint). All schedules with <= 1 preemption (quick; 2 for "
             "race-free harnesses) / <= 2 (thorough) are executed; every thread's outcome must equal its solo outcome and configuration + schema fingerprints must be restored.",
        note="Trusted: scheduler owns all shared mutable state reachable from the harness (audited by instrumenting every pandera object reachable from the schemas and the config module); preemption granularity = shared-state access, not bytecode.",
        ref="3/C07"),
    "C08": dict(
        technique="exhaustive enumeration of backend-neutral (schema, table) pairs within bounded edits; differential oracle pandas vs polars",
        text="Every backend-neutral spec within <=2 schema edits (nullable, unique, required, strict, ordered, add_missing_columns, default, coerce, every built-in "
             "check incl. regexes with top-level alternation / anchors / classes / empty pattern) and <=2 data edits of the 3-column base, and <=(1,2) edits of a parsing corner base (optional absent column, default, nullable, ordered, add_missing_columns), is validated lazily by both "
             "backends: verdicts, failing (column, check, row, value) cells, frame-level error sets and parsed outputs (up to null representation) must be equal.",
        note="Trusted: the exclusion list of documented / representational differences (mc/props/c08.py docstring): wrongly typed columns' check reports, nulls in int columns under coercion, uniqueness among nulls.",
        ref="3/C08"),
    "C09": dict(
        technique="exhaustive enumeration of the live dtype registries of all four engines plus a finite parameter alphabet; all ordered pairs for check()",
        text="For numpy, pandas(+pyarrow), polars and pyspark engines every registered spelling and every generated parametrisation is resolved; idempotence with equal hashes, the resolved type denotes the native parametrised dtype it came from, "
             "equality of registered equivalents, str round trip for primitive types (numpy/pandas/pyspark), self-recognition, and absence of cross-kind / signedness / width "
             "recognition over all ordered pairs of distinct resolved types (width judged on the boxed native type where it has one).",
        note="Trusted: classification of a DataType into (kind, signedness, bit width) through the abstract pandera.dtypes hierarchy.",
        ref="3/C09"),
    "C10": dict(
        technique="exhaustive enumeration of containers over a value pool up to a length bound for every coercible dtype; self-referential (singleton) oracle; explicit-state exploration of coercion histories in fresh interpreters",
        text="25 pandas data types (numpy, nullable-extension, pyarrow, datetime, timedelta, category incl. a parametrised Category, string, object) and 8 polars types x every container of length <= 2 "
             "(thorough 3; polars one longer) over an 11-value mixed pool: success => same length/labels, own check passes, values equal the singleton coercions, idempotent; "
             "failure => ParserError whose failure cases are exactly the elements whose singleton coercion fails. Histories: 10 data type objects (DateTime with/without tz and user keyword arguments, parametrised Category, int) x 4 containers (incl. wall-clock times at DST edges): every first operation followed by the whole alphabet forwards and backwards (thorough: every ordered pair in an interpreter of its own) must give each operation the outcome it has when run alone in a fresh interpreter.",
        note="Trusted: 'individually coercible' is defined by the implementation's behaviour on singleton containers (differential, no expected values).",
        ref="3/C10"),
    "C11": dict(
        technique="explicit-state exhaustive enumeration of a deviation-bounded input space against a reference model of row-level validity",
        text="Every (schema with drop_invalid_rows, table) within <=2 row-level constraint edits and <=2 data edits (nulls, duplicates, failing cells, string / reversed / "
             "MultiIndex labels) on DataFrameSchema, SeriesSchema, Column, a DataFrameModel Config and polars: rows surviving validate(lazy=True), identified by position "
             "through a hidden row-number column, must be exactly the rows on which the reference model finds no row-level violation, in order; frame-level violations must not return.",
        note="Trusted: reference model; unique index labels as stated in the property.",
        ref="3/C11"),
    "C12": dict(
        technique="exhaustive enumeration of schemas within k feature edits of 4 bases; round-trip oracle on a projection of the serialisable attributes",
        text="Every schema within <=2 (thorough 3) edits over the serialisable vocabulary (flags, every built-in check with options, titles/descriptions/names with quotes, colons "
             "and YAML keywords, strict='filter', unique as str/list, frame-level dtype and checks, Index/MultiIndex, timedelta components with zero-duration arguments, one Check instance shared by two components) is written to YAML, JSON and script and read back: the "
             "projection onto the attributes listed in the property must be identical, to_yaml/to_json must be a fixpoint, and verdicts on probe frames must agree.",
        note="Trusted: projection function lists exactly the property's attributes; exec of the generated script.",
        ref="3/C12"),
    "C13": dict(
        technique="stateless choice-point exploration of hypothesis' primitive draws (scripted PrimitiveProvider): all answer sequences within a deviation bound, prefix replay",
        text="For ~540 schemas (3 main dtypes x check chains of length <= 2 in both orders x nullable/unique x SeriesSchema/Column/Index, 19 further dtypes, 12 DataFrameSchemas with "
             "index / MultiIndex / regex / joint-unique / frame-level checks, a MultiIndex) and sizes 0..2 (thorough 0..3) the real schema.strategy() is executed under a provider that answers "
             "every primitive hypothesis draw from a finite menu (bounds, shrink target, +-1, boundary, both booleans, shortest strings): the default path plus every sequence with <= 2 "
             "(thorough 3) non-default answers for Series/Index/Column-level schemas (1 / 2 for frames), from two default paths for nullable schemas, plus 6 cold-start cases run in a fresh interpreter. Every example produced must pass schema.validate and have the requested size; runs that produce no example are counted, not judged.",
        note="Trusted: the answer menus (values outside them are not explored); hypothesis' ConjectureData/BuildContext internals as the seam.",
        ref="3/C13"),
    "C15": dict(
        technique="explicit-state BFS over schema-transformation programs (state = fingerprint of the derived schema), commuting-square / inverse-law / attribute-preservation oracles on every transition",
        text="From 4 seed schemas whose components carry every attribute at a non-default value (pandas rich, MultiIndex, regex; polars), every program of <= 2 (thorough 3) operations out of "
             "add/remove/select/rename/update_column(s) (each updatable attribute)/set_index (drop, append)/reset_index (level, drop), with arguments from the schema's own names plus an absent one, "
             "the named attribute must take the requested value, "
             "is applied; programs reaching equal schemas are merged. Every transition: receiver fingerprint unchanged and not aliased, every attribute not named by the operation preserved "
             "(attribute by attribute), accept(S,D) => accept(op(S), op(D)) on the probe frame, inverse laws, invalid requests raise SchemaInitError/ValueError.",
        note="Trusted: structural fingerprint as attribute equality; the frame-side counterpart of each schema operation (mc/props/c15.py:_apply_frame).",
        ref="3/C15"),
    "C16": dict(
        technique="explicit-state search over histories of {define class, to_schema, validate} events on generated class hierarchies + exhaustive enumeration of hierarchies within <= 2 class-body edits, against an independent reference compiler",
        text="Class hierarchies (chain A<-B<-C, thorough also a diamond) within <= 2 edits over Field keywords for every built-in check, flags, alias, regex, Optional, Index fields, annotation "
             "spellings, Config options own/inherited/overridden, Config extras, @check/@dataframe_check/@parser/@dataframe_parser defined, overridden by name, name=/regex= are generated as source, "
             "exec'd, and compared with the DataFrameSchema produced by an independent ~150-line reference compiler from the same spec: projection equality of to_schema() in every reachable "
             "state of every event order (all linear extensions), init errors exactly where documented, earlier schemas never mutated by later events, and identical outcome / parsed result / "
             "lazy report on the conforming table and one table per data-edit kind (thorough: every single data edit), pandas and polars.",
        note="Trusted: the reference compiler (mc/props/c16.py:compile_ref) and mc.spec.schema builders; method bodies are generated from one text for model and reference.",
        ref="3/C16"),
    "C19": dict(
        technique="exhaustive enumeration of (predicate, data vector, index kind, level) with metamorphic relations between option variants",
        text="6 predicates x every vector of length <= 3 (thorough 4) over {1,2,3,-1,null} x 3 index kinds x {SeriesSchema, Column, Index, DataFrame} levels: element_wise == "
             "vectorised map; ignore_na hides nulls from the function and never fails them (and ignore_na=False shows them); n_failure_cases never changes the verdict and "
             "reports a subset; raise_warning never raises and warns iff the plain check fails (for aligned-series, scalar, element-wise and groupby outputs, and raising functions); groupby hands over exactly the groups (str / list / "
             "callable, restricted by groups; object and categorical grouping columns incl. an empty group); ignore_na relations also on the nullable-extension Int64 representation; aliases equal and behave as their canonical checks; frame-level ignore_na; polars ignore_na / raise_warning.",
        note="Trusted: nothing but the relations themselves (no expected values).",
        ref="3/C19"),
    "C20": dict(
        technique="exhaustive enumeration of (schema, table, head, tail, sample, random_state) within bounds; differential oracle against the explicitly subsampled frame",
        text="Frames of <=4 rows with duplicate rows / duplicate and string index labels / failing first, middle, last rows x row-level constraints x every (head, tail, sample) "
             "combination (quick: boundary values; thorough: all 0..len) on pandas DataFrameSchema / SeriesSchema / Column and polars: the verdict must equal that of "
             "validating the frame built from the selected positions, the result must be the whole object, repeated calls agree, head=len equals no option.",
        note="Trusted: position of sampled rows obtained from the library's own sampler on a row-number column with the same seed.",
        ref="3/C20"),
    "C14": dict(
        technique="exhaustive enumeration of all columns over per-dtype extreme-value pools up to a length bound x index alphabet",
        text="12 value pools (int64 incl. +-(2**53+1) and min/max, float64 incl. +-inf/-0.0/NaN, bool, str, mixed object, datetime at the ns bounds, tz-aware datetime, "
             "timedelta, categorical with an unused category, Int64, uint8, float32) x every column of length <= 3 (thorough 4) x {default, named, string, datetime, MultiIndex} "
             "index, plus the enumerated column itself used as Index / MultiIndex level / level of a sliced frame, as a frame column and as a Series: infer_schema(D) must accept D and return equal values, inferred ge/le bounds must be D's exact min/max in D's own "
             "dtype, and the YAML / JSON / script round trips of the inferred schema must give the same verdict.",
        note="Trusted: pandas' own min/max and assert_*_equal (values, not dtype) as the notion of 'unchanged values'.",
        ref="3/C14"),
    "C17": dict(
        technique="exhaustive product of signature shape x designation x call shape x options x frame per decorator against a reference wrapper",
        text="12 generated signature shapes (plain, extra positional, defaults, *args, **kwargs, defaulted frame, method, classmethod, staticmethod, async, pre-wrapped; for check_types every shape also as a coroutine) x "
             "obj_getter None/int/str x positional/keyword/mixed/default-not-passed calls x {no option, head, tail, lazy, head+lazy} x 5 frames for check_input; tuple/list/dict/"
             "callable outputs incl. negative and middle getters x sync/async for check_output and check_io(out=...), the whole returned container compared; check_io with all frame pairs; check_types over 9 annotation shapes, and over 11 signatures with several annotated parameters (plain, Optional, Union of models, Union of other types, Union return; sync and async) x every argument combination, each argument judged against its own annotation: the instrumented body must run iff the "
             "designated input validates (with the given options), receive the parsed object, and the wrapper must return/raise what the reference wrapper does.",
        note="Trusted: the reference wrapper (inspect.signature binding + schema.validate with the same options).",
        ref="3/C17"),
    "C18": dict(
        technique="explicit-state BFS over config_context histories + exhaustive enumeration of environment settings and depth decomposition",
        text="BFS over all enter/exit/exit-by-exception/probe histories of the real config_context up to nesting 3 (thorough 4), each "
             "transition replayed on the implementation and compared with a stack model; the full product of documented environment "
             "variable values each in a fresh interpreter, with every config_context depth override probed on top of each; SAD <=> SO and DO over the shared schema x data space.",
        note="Trusted: stack model of save/override/restore, docs/source/configuration.md as the oracle for env vars and depth defaults.",
        ref="3/C18"),
}

PENDING = {}
ALL = [f"C{i:02d}" for i in range(1, 21)]


def main():
    checks = []
    for pid in ALL:
        if pid not in CHECKS:
            continue
        c = CHECKS[pid]
        checks.append({
            "property_id": pid,
            "quick_cmd": f"{PY} {pid} --tier quick",
            "thorough_cmd": f"{PY} {pid} --tier thorough",
            "evidence_file": f"/verif/evidence/{pid}.json",
            "replay_cmd_template": f"{PY} {pid} --replay {{path}}",
            "engine": "mc",
            "level_claimed": {"category": c.get("category", "model_checking"), "text": c["text"], "design_ref": c["ref"]},
            "level_note": c["note"],
            "technique": c["technique"],
        })
    na = [{"property_id": pid, "reason": PENDING.get(pid, "check not built yet in this session (work in progress; see DESIGN.md section 3 for the planned bounded exploration)")}
          for pid in ALL if pid not in CHECKS]
    man = {
        "version": 1,
        "setup_cmd": "/venv/bin/python -c \"import pandera, pandas, polars, jsonschema\"",
        "hooks": {
            "guard": "PANDERA_VERIF",
            "enable": "no source hooks: checks instrument pandera from outside (class swapping, sys.settrace, hypothesis provider); run.py sets PANDERA_VERIF=1 for its workers",
            "baseline_off_cmd": "cd /repo && env -u PANDERA_VERIF /venv/bin/python -m pytest -ra -q -p no:cacheprovider --timeout=900 --continue-on-collection-errors",
            "source_commits": [],
            "add_only": True,
        },
        "engines": [{"name": "mc", "path": "/verif/mc", "serves_properties": [c["property_id"] for c in checks],
                     "kind_free_text": "hand-written explicit-state / stateless bounded explorers driving the real pandera code; reference models as oracles"}],
        "checks": checks,
        "not_applicable": na,
        "notes": "All checks: /venv/bin/python /verif/run.py <ID> --tier quick|thorough [--replay file]. VERIF_SEED permutes sample choice only; coverage is seed independent.",
    }
    with open(os.path.join(ROOT, "MANIFEST.json"), "w") as fh:
        json.dump(man, fh, indent=1)
    try:
        import jsonschema

        jsonschema.validate(man, json.load(open("/root/.vp/MANIFEST.schema.json")))
        print("MANIFEST.json valid;", len(checks), "checks,", len(na), "not_applicable")
    except ImportError:
        pass


if __name__ == "__main__":
    main()
