#!/venv/bin/python
"""usage: suite_check.py <worktree-dir> [pytest-path-args...]
Runs the repository's pinned test suite inside <worktree-dir> (so `import pandera` resolves to that
worktree) and reports every test that is in the pinned stable-pass list (/root/.vp/BASELINE.json)
but does not pass now.  With extra args only those test paths are run (faster), and only stable
tests that were actually collected are compared.  Exit 0 = no regression.  Full suite ~11-15 min; runs are queued (max 4 full runs at a time), so it may wait."""
import json, os, subprocess, sys, tempfile
import xml.etree.ElementTree as ET
wt = os.path.abspath(sys.argv[1]); sel = sys.argv[2:]
base = json.load(open("/root/.vp/BASELINE.json")); stable = set(base["stable_pass"])
fd, xml = tempfile.mkstemp(suffix=".junit.xml", dir="/var/tmp"); os.close(fd)
env = {k: v for k, v in os.environ.items() if not k.startswith("PANDERA_")}
env["PYTHONPATH"] = wt
cmd = ["/venv/bin/python", "-m", "pytest", "-ra", "-q", "-p", "no:cacheprovider", "--timeout=900",
       "--continue-on-collection-errors", f"--junitxml={xml}"] + sel
import fcntl, time
# at most 4 full-suite runs (and 4 partial runs) at a time on this machine: the others queue here
os.makedirs("/tmp/seedtools", exist_ok=True)
slots = [open(f"/tmp/seedtools/.slot_{'full' if not sel else 'part'}_{i}", "w") for i in range(4 if not sel else 4)]
held = None
while held is None:
    for f in slots:
        try:
            fcntl.flock(f, fcntl.LOCK_EX | fcntl.LOCK_NB); held = f; break
        except OSError:
            pass
    else:
        time.sleep(5)
subprocess.run(cmd, cwd=wt, env=env, stdout=subprocess.DEVNULL, stderr=subprocess.DEVNULL)
fcntl.flock(held, fcntl.LOCK_UN)
passed, other = set(), {}
for tc in ET.parse(xml).getroot().iter("testcase"):
    tid = f"{tc.get('classname')}::{tc.get('name')}"
    bad = [c.tag for c in tc if c.tag in ("failure", "error", "skipped")]
    (other.__setitem__(tid, bad[0]) if bad else passed.add(tid))
os.unlink(xml)
ran = passed | set(other)
missing = sorted((stable & ran if sel else stable) - passed)
print(f"stable_pass={len(stable)} ran={len(ran)} passed_now={len(passed)} stable_but_not_passing={len(missing)}")
for m in missing[:80]:
    print("  REGRESSION", m, other.get(m, "not-run"))
sys.exit(1 if missing else 0)
