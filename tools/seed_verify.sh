#!/bin/bash
# usage: seed_verify.sh <seed-id> [--nosuite]   confirms a seeded change in a scratch worktree of /repo's HEAD:
#   demo passes without the patch, fails with it, and the pinned suite shows no regression with it.
set -u
ID=$1; S=/verif/seeded/$ID; WT=/tmp/seedverify_$ID
git -C /repo worktree remove --force $WT >/dev/null 2>&1
git -C /repo worktree add --detach $WT HEAD >/dev/null 2>&1 || { echo "worktree failed"; exit 2; }
cd $WT
DEMO=$(ls $S | grep -E '^demo' | head -1)
PYTHONPATH=$WT timeout 600 /venv/bin/python $S/$DEMO >/tmp/seedverify_$ID.clean.log 2>&1; CLEAN=$?
git apply $S/patch.diff || { echo "$ID patch does not apply to HEAD"; git -C /repo worktree remove --force $WT; exit 2; }
PYTHONPATH=$WT timeout 600 /venv/bin/python $S/$DEMO >/tmp/seedverify_$ID.patched.log 2>&1; PATCHED=$?
SUITE="skipped"
if [ "${2:-}" != "--nosuite" ]; then
  /verif/tools/suite_check.py $WT > /tmp/seedverify_$ID.suite.log 2>&1; SUITE="exit=$? $(head -1 /tmp/seedverify_$ID.suite.log)"
fi
cd /; git -C /repo worktree remove --force $WT
echo "$ID demo_clean_exit=$CLEAN demo_patched_exit=$PATCHED suite: $SUITE"
