#!/venv/bin/python
"""Run the pinned suite (guard OFF) and compare with BASELINE.json's stable_pass list.
usage: baseline_check.py [junit.xml]   (runs the suite when no file is given)"""
import json, os, subprocess, sys, tempfile
import xml.etree.ElementTree as ET

base = json.load(open("/root/.vp/BASELINE.json"))
stable = set(base["stable_pass"])
if len(sys.argv) > 1:
    xml = sys.argv[1]
else:
    fd, xml = tempfile.mkstemp(suffix=".junit.xml", dir="/var/tmp"); os.close(fd)
    env = {k: v for k, v in os.environ.items() if not k.startswith("PANDERA_")}
    cmd = base["cmd"].replace("<file>", xml)
    subprocess.run(cmd, shell=True, env=env, stdout=subprocess.DEVNULL, stderr=subprocess.DEVNULL)
passed, other = set(), {}
for tc in ET.parse(xml).getroot().iter("testcase"):
    tid = f"{tc.get('classname')}::{tc.get('name')}"
    bad = [c.tag for c in tc if c.tag in ("failure", "error", "skipped")]
    if bad:
        other[tid] = bad[0]
    else:
        passed.add(tid)
missing = sorted(stable - passed)
print(f"stable_pass={len(stable)} passed_now={len(passed)} stable_but_not_passing={len(missing)}")
for m in missing[:60]:
    print("  REGRESSION", m, other.get(m, "not-run"))
if len(sys.argv) <= 1:
    os.unlink(xml)
sys.exit(1 if missing else 0)
