#!/venv/bin/python
"""summarise replays/<P>/<tier>_signatures.json"""
import json, sys, collections
prop = sys.argv[1]; tier = sys.argv[2] if len(sys.argv) > 2 else "quick"
full = len(sys.argv) > 3
d = json.load(open(f"/verif/replays/{prop}/{tier}_signatures.json"))
c = collections.Counter(); ex = {}
for x in d:
    k = (x["clause"], x["key"].split("|")[0]) if not full else (x["clause"], x["key"])
    c[k] += 1; ex.setdefault(k, x)
for k, n in c.most_common():
    print(n, k, "::", ex[k]["key"][:160]); print("      ", ex[k]["detail"][:int(sys.argv[4]) if len(sys.argv) > 4 else 500])
