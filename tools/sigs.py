#!/venv/bin/python
"""compact summary of replays/<P>/<tier>_signatures.json:  sigs.py P [tier] [maxlines] [detail_chars]"""
import json, sys, collections, re
prop = sys.argv[1]; tier = sys.argv[2] if len(sys.argv) > 2 else "quick"
maxl = int(sys.argv[3]) if len(sys.argv) > 3 else 25
dch = int(sys.argv[4]) if len(sys.argv) > 4 else 0
d = json.load(open(f"/verif/replays/{prop}/{tier}_signatures.json"))
print(len(d), "distinct signatures")
for x in d[:maxl]:
    print(f"- [{x['n']}] {x['clause']} :: {x['key'][:150]}")
    if dch: print("     ", re.sub(r"\s+", " ", x["detail"])[:dch])
